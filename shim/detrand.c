/* Deterministic OS-randomness and wall-clock shim for the lance simulator.
 *
 * LD_PRELOADed into `lancesim`.  Overrides
 *   getrandom / getentropy / syscall(SYS_getrandom)  -> splitmix64 stream
 *   clock_gettime(CLOCK_REALTIME[_COARSE]) / gettimeofday / time -> simulated
 *     wall clock when one has been set (verif_set_clock_ns != 0)
 * and exports
 *   verif_reseed(u64)        re-seed the random stream (called per run)
 *   verif_set_clock_ns(i64)  set the simulated wall clock (0 = real clock)
 *   verif_shim_present()     lets the harness detect the shim
 *
 * Build: gcc -shared -fPIC -O2 -o libdetrand.so detrand.c -ldl -lpthread
 */
#define _GNU_SOURCE
#include <stddef.h>
#include <stdint.h>
#include <stdlib.h>
#include <stdarg.h>
#include <time.h>
#include <sys/time.h>
#include <sys/types.h>
#include <sys/syscall.h>
#include <unistd.h>
#include <dlfcn.h>
#include <pthread.h>

/* One stream per thread: the stream of the thread that runs the simulation must not depend on
 * when helper threads (rayon / blocking pool: thread-local hash seeds, temp names) draw.
 * A thread's stream is derived from (seed, epoch, ordinal of its first draw since the last
 * reseed); the run thread is the first to draw after a reseed, so its stream is a function of
 * the seed alone. */
static uint64_t base_seed = 0;
static uint64_t epoch = 1;
static uint64_t next_ordinal = 0;
static int inited = 0;
static pthread_mutex_t mu = PTHREAD_MUTEX_INITIALIZER;
static volatile int64_t sim_clock_ns = 0;
static __thread uint64_t t_state = 0;
static __thread uint64_t t_epoch = 0;

static uint64_t mix64(uint64_t z) {
    z = (z ^ (z >> 30)) * 0xBF58476D1CE4E5B9ULL;
    z = (z ^ (z >> 27)) * 0x94D049BB133111EBULL;
    return z ^ (z >> 31);
}

static uint64_t next(void) {
    return mix64(t_state += 0x9E3779B97F4A7C15ULL);
}

static void fill(void *buf, size_t len) {
    if (t_epoch != epoch) {
        pthread_mutex_lock(&mu);
        if (!inited) {
            const char *s = getenv("VERIF_RAND_SEED");
            base_seed = s ? strtoull(s, NULL, 10) : 0x1234567;
            inited = 1;
        }
        uint64_t ord = next_ordinal++;
        t_state = mix64(base_seed ^ mix64(ord + 0x51ed270b1ULL));
        t_epoch = epoch;
        pthread_mutex_unlock(&mu);
    }
    unsigned char *p = buf;
    while (len > 0) {
        uint64_t v = next();
        size_t n = len < 8 ? len : 8;
        for (size_t i = 0; i < n; i++) p[i] = (unsigned char)(v >> (8 * i));
        p += n; len -= n;
    }
}

void verif_reseed(uint64_t seed) {
    pthread_mutex_lock(&mu);
    base_seed = seed;
    inited = 1;
    epoch++;
    next_ordinal = 0;
    pthread_mutex_unlock(&mu);
}

void verif_set_clock_ns(int64_t ns) { sim_clock_ns = ns; }
int verif_shim_present(void) { return 1; }

ssize_t getrandom(void *buf, size_t buflen, unsigned int flags) {
    (void)flags;
    fill(buf, buflen);
    return (ssize_t)buflen;
}

int getentropy(void *buf, size_t len) { fill(buf, len); return 0; }

long syscall(long number, ...) {
    static long (*real)(long, ...) = NULL;
    va_list ap; va_start(ap, number);
    long a1 = va_arg(ap, long), a2 = va_arg(ap, long), a3 = va_arg(ap, long),
         a4 = va_arg(ap, long), a5 = va_arg(ap, long), a6 = va_arg(ap, long);
    va_end(ap);
    if (number == SYS_getrandom) { fill((void*)a1, (size_t)a2); return a2; }
    if (!real) real = dlsym(RTLD_NEXT, "syscall");
    return real(number, a1, a2, a3, a4, a5, a6);
}

int clock_gettime(clockid_t clk, struct timespec *ts) {
    static int (*real)(clockid_t, struct timespec *) = NULL;
    int64_t c = sim_clock_ns;
    if (c != 0 && (clk == CLOCK_REALTIME || clk == CLOCK_REALTIME_COARSE)) {
        ts->tv_sec = c / 1000000000LL;
        ts->tv_nsec = c % 1000000000LL;
        return 0;
    }
    if (!real) real = dlsym(RTLD_NEXT, "clock_gettime");
    return real(clk, ts);
}

int gettimeofday(struct timeval *tv, void *tz) {
    static int (*real)(struct timeval *, void *) = NULL;
    int64_t c = sim_clock_ns;
    if (c != 0 && tv) {
        tv->tv_sec = c / 1000000000LL;
        tv->tv_usec = (c % 1000000000LL) / 1000;
        return 0;
    }
    if (!real) real = dlsym(RTLD_NEXT, "gettimeofday");
    return real(tv, tz);
}

time_t time(time_t *t) {
    static time_t (*real)(time_t *) = NULL;
    int64_t c = sim_clock_ns;
    if (c != 0) {
        time_t v = (time_t)(c / 1000000000LL);
        if (t) *t = v;
        return v;
    }
    if (!real) real = dlsym(RTLD_NEXT, "time");
    return real(t);
}

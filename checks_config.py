"""Per-property check configuration: which engine batches run, with which options,
and how evidence describes them. Read by ./check."""

COMPONENTS = {
    "real": [
        "lance dataset/transaction/conflict-resolver/commit handlers/manifest I/O",
        "lance file writer+reader and encodings, I/O scheduler, object writer",
        "scalar/vector/FTS indices, DataFusion planning and execution",
        "tokio current-thread executor (paused virtual clock)",
    ],
    "simulated": [
        "object store (SimDisk: atomic put, conditional put, multipart, list, copy, delete)",
        "external manifest store, lock service",
        "OS randomness (LD_PRELOAD splitmix64 shim), wall clock (shim), timers (tokio virtual time)",
        "CPU pool (spawn_cpu runs inline under cfg lance_verif)",
    ],
    "not_exercised": ["local-filesystem fast paths", "cloud providers (S3/GCS/Azure/DynamoDB)", "language bindings"],
}

SEQ_RULE = ("one run = one seeded history on a fresh simulated table (random commit handler, storage version, "
            "store knobs, stable-row-id setting); distinct = distinct operation-kind sequences; non-trivial = "
            "history of >= 3 executed operations")


def seq(prop, **kw):
    d = {"engine": "e1", "opts": [("mode", "seq")], "weight": 1}
    d.update(kw)
    return d


CONC_RULE = ("one run = a seeded prefix history, then 1-2 rounds of 2-4 transactions started concurrently from arbitrary "
             "recent read versions by parties with own sessions; every storage call parks at the gate and a seeded "
             "scheduler releases one at a time; distinct = distinct decision sequences (actor, call kind, path class, "
             "fault); non-trivial = >= 2 parties had calls parked at the same decision point or a fault fired")
CRASH_RULE = ("one run = a seeded prefix history + one operation X; X is run fault-free to learn its storage calls, then "
              "re-run from a disk snapshot once per (call index, fault in {crash-before, crash-after, error}); each "
              "re-run is a sub-case checked by a fresh party; distinct = distinct (prefix kinds, X kind, call count); "
              "non-trivial = at least one sub-case")
E2_RULE = ("one run = 2-3 writers x 1-3 commit attempts + 1-2 readers calling the real CommitHandler methods on tiny "
           "manifests with unique markers, under the seeded scheduler (reorder, stall) and 0-3 faults; distinct = "
           "distinct decision sequences; non-trivial = parties overlapped at the gate or a fault fired")

LEVEL_NOTE = ("Sampling, not proof: a clean batch is evidence. Trusted base: the simulated object store's fidelity "
              "(DESIGN 2.8), the reference model (DESIGN 3), tokio's current-thread executor, the LD_PRELOAD shim. "
              "Real lance code runs above the object_store trait; local-filesystem and cloud-provider paths are not exercised.")


def e1(mode, weight=1, **opts):
    o = [("mode", mode)] + sorted(opts.items())
    return {"engine": "e1", "opts": o, "weight": weight}


def e2(weight=1, **opts):
    return {"engine": "e2", "opts": sorted(opts.items()), "weight": weight}


def e3(mode, weight=1, **opts):
    return {"engine": "e3", "opts": [("mode", mode)] + sorted(opts.items()), "weight": weight, "minimise": False}


IO_RULE = ("one run = a random file in the simulated store, random store parameters (block size, max request size, "
           "io parallelism 1-8, buffer budget from 64 B to 256 MiB), 1-4 client tasks submitting 1-4 requests of sorted "
           "ranges (empty, overlapping, contained, adjacent, far apart) with random priorities, some holding results "
           "unconsumed; every storage read parks at the gate and completes in seeded order; distinct = distinct "
           "(completion order, parameters); non-trivial = a request with >= 2 ranges or concurrent reads parked")
WRITER_RULE = ("one run = a random chunk sequence (0 B .. 17 MiB, below/at/above the 5 MiB part size) written through "
               "ObjectWriter, then shutdown / abort / drop; part uploads park at the gate and complete in seeded order "
               "with injected errors and connection resets; the destination is probed after every storage step; "
               "distinct = distinct (completion order, size, chunk count); non-trivial = more than one storage step")


def chk(batches, rule, text, **kw):
    d = {"batches": batches, "rule": rule, "level_text": text, "level_note": LEVEL_NOTE}
    d.update(kw)
    return d


CHECKS = {
    "C01": chk([e1("crash", 3), e1("crash", 1, amb=1), e1("seq", 1), e1("conc", 1, faults=1)], CRASH_RULE,
               "Seeded search over histories; inside each sampled (history, operation) the crash/error point is swept over "
               "every storage call of the operation (exhaustive per case); oracle: a fresh party sees exactly the old "
               "versions or the complete new one, versions dense, table writable. Separate batch with lost/duplicated "
               "responses on the publishing call, and a batch of concurrent rounds with crashes/errors (every acknowledged commit "
               "is exactly one version whose content is its transaction applied to the previous version).",
               required_probes=["x-calls"]),
    "C02": chk([e2(3), e2(1, amb=1), e1("conc", 1)], E2_RULE,
               "Seeded search over interleavings of writers/readers on each atomic commit handler with injected errors, "
               "crashes, lost and duplicated responses; disk-level immutability monitor + single-winner + same-content oracles.",
               required_probes=["overlapped"]),
    "C03": chk([e1("conc", 3), e1("conc", 1, faults=1)], CONC_RULE,
               "Seeded search over commit orders of concurrently started transactions; oracle: serial replay of the committed "
               "transactions' row-level effects (computed at some read version between start and commit) equals every new version.",
               required_probes=["overlapped", "txn-committed", "rebased-over-concurrent-commit"]),
    "C04": chk([e1("conc", 1)], CONC_RULE,
               "As C03 with a delete/update/merge_insert mix over overlapping rows; oracle: no row image modified by two committed transactions, no resurrected row.",
               required_probes=["overlapped", "txn-committed"]),
    "C05": chk([e1("seq", 1)], SEQ_RULE, "Seeded histories; Dataset::validate plus manifest invariants after every commit."),
    "C06": chk([e1("seq", 2), e1("maint", 1)], SEQ_RULE, "Seeded histories; every old version re-read by a fresh party after later steps must equal its snapshot; disk-level monitor that no referenced object changes bytes. Second batch: histories with cleanup under random policies, tags and clock jumps; every version that cleanup retains (including tagged old versions) must still read back as its snapshot."),
    "C07": chk([e1("seq", 2), e1("conc", 1, stable=1)], SEQ_RULE, "Seeded histories with restores; restored version equals the model of the old version; row ids never re-issued. Second batch: restores racing with appends/updates/merges in concurrent rounds on stable-row-id tables, followed by further writes; serial-replay and row-identity oracles."),
    "C08": chk([e1("maint", 2), e1("maint", 1, race=1)],
               "one run = a seeded history with simulated wall-clock jumps (hours to 8 days), tags, writers crashed at a chosen storage call (orphan files) and "
               "cleanup under random policies (older_than 0 h .. 30 d, before_version, retain_n, delete_unverified on/off); the race batch ends with a writer "
               "and an aggressive cleanup interleaved at every storage call; distinct = distinct operation-kind sequences / decision sequences; non-trivial = >= 3 operations",
               "Seeded histories; after every cleanup a fresh party lists the versions: only policy-selected, untagged, non-latest versions may be gone (10 s guard band on the "
               "time boundary) and every retained version still scans to its model state; in the race the writer either fails or publishes a version whose files all exist.",
               required_probes=["cleanup-removed-versions", "cleanup-deleted-data-file", "orphans-left"]),
    "C09": chk([e1("refs", 1)],
               "one run = a seeded history of reference operations on one table: writes on main and on branches, create_branch from arbitrary (branch, version) with "
               "prefix-related hierarchical names drawn from a small cluster (a, ab, a/b, abc, a/b/c, ...), delete_branch, tag create/update/delete, shallow clones "
               "with writes; plus 150 random name strings per run compared with an independent implementation of the documented grammar; distinct = distinct "
               "operation-kind sequences; non-trivial = >= 3 operations",
               "Seeded histories; after every operation every other reference (main, each branch head and one older version, each tag, each clone) is re-read by a fresh "
               "party and must equal the model; tags resolve to the (branch, version) they were set to; the store's delete log shows a branch deletion touching no "
               "object owned by main or by another live branch.",
               required_probes=["branch-deleted-with-files"]),
    "C10": chk([e2(3, handler="external"), e2(1, handler="external", amb=1), e1("crash", 1, handler="external")], E2_RULE,
               "Seeded interleavings of two-three writers and readers through stage/put_if_not_exists/copy/put_if_exists/delete with "
               "crashes and errors at every step and stale external reads; all resolvers of a version read the same bytes; "
               "committed versions are repaired to the standard path by later readers.",
               required_probes=["overlapped"]),
    "C11": chk([e1("seq", 1)], SEQ_RULE, "Seeded create/append/overwrite histories under random file/group limits, storage versions and store knobs; ordered scan equals the model."),
    "C12": chk([e1("seq", 1)], SEQ_RULE, "Seeded histories of delete/update/merge_insert with random predicates and sources; scan and counts equal the model's SQL semantics; must-fail operations leave no effect."),
    "C13": chk([e1("seq", 1)], SEQ_RULE, "Seeded histories with compaction under random options; contents, row ids and indexed query results unchanged."),
    "C14": chk([e1("seq", 1)], SEQ_RULE, "Seeded add/alter/drop column sequences interleaved with writes; untouched columns and order preserved, added values as requested."),
    "C15": chk([e1("seq", 1)], SEQ_RULE, "Seeded histories (deletes, updates, compaction, restore; stable row ids on/off); take by offsets and by row ids with random projections, duplicates and unsorted keys equals the ordered scan.",
               required_probes=["take-calls"]),
    "C16": chk([e1("seq", 1)], SEQ_RULE, "Partial claim (column universe and predicate grammar of the model): random filter/projection/limit queries equal the model's SQL evaluation and are identical under 4 random knob vectors (batch size, readahead, io buffer, stats, index use, materialisation).",
               required_probes=["knob-queries"]),
    "C17": chk([e1("seq", 1, stable=1)], SEQ_RULE, "Seeded histories on tables with stable row ids; created-at / last-updated version of every row and inserted/updated deltas for random version pairs equal the lineage model."),
    "C18": chk([e1("seq", 2, stable=1), e1("conc", 1, stable=1)], SEQ_RULE, "Seeded histories and concurrent rounds with stable row ids; every logical row keeps its id, ids unique and never re-issued, take_rows(id) returns the current image."),
    "C36": chk([{"engine": "e5", "opts": [], "weight": 1}],
               "one run = a seeded sequence (5-14) of create/drop/exists/describe/list calls on tables and (with the manifest table) nested namespaces of a "
               "DirectoryNamespace over the simulated store (arbitrary listing order), in directory-listing, manifest or dual mode, names drawn from ordinary ones "
               "and delimiter/quote/dot/slash/unicode/space ones, random page sizes; distinct = distinct (mode, operation-kind sequence); non-trivial = >= 3 operations",
               "Consistency oracle: the names whose creation was acknowledged and that were not dropped are exactly what exists/list/describe report after every step "
               "(no operation affects another name, accepted names are stored faithfully), and start-after paging returns every entry exactly once.",
               required_probes=["table-created", "paged-listings"]),
    "C37": chk([e1("seq", 1)], SEQ_RULE, "Partial claim (history part): after every commit reader/writer flags match contents (deletion files, stable row ids, config, base paths) and every data file carries the table's storage version."),
    "C19": chk([e1("seq", 1)], SEQ_RULE, "Seeded histories that grow/delete/update/compact/optimize exact scalar indices; every random predicate returns the same rows with and without the index."),
    "C20": chk([e1("seq", 1)], SEQ_RULE, "As C19 for zone-map, bloom-filter and n-gram indices with random parameters."),
    "C22": chk([e1("seq", 3, stable=0), e1("seq", 1, stable=1)], SEQ_RULE + "; tables carry a fixed-size-list<f32> column (dimension drawn from {2,3,5,8,13}, NULL vectors, duplicates) and histories include IVF_FLAT index creation (1-3 partitions, L2 or cosine) and optimisation",
               "Seeded histories with deletes, updates, appends after indexing, compaction and index optimisation; after every step 6 random nearest() queries (flat, or indexed probing every partition; random k, metric, pre-filter): returned rows are live and pass the filter, reported distances equal the recomputed ones, ascending, count = min(k, candidates) and the k-th distance equals the brute-force k-th distance.",
               required_probes=["knn-queries"]),
    "C23": chk([e1("seq", 3, stable=0), e1("seq", 1, stable=1)], SEQ_RULE + "; tables carry a small-vocabulary text column (empty, NULL, unicode, repeated words) and histories include inverted-index creation (positions on, no stemming/stop words) and optimisation",
               "Seeded histories with deletes, updates, appends after indexing, compaction and index optimisation; after every step 6 random full-text queries (match-any, match-all, phrase; 1-3 terms): the returned document set equals the model's evaluation over the tokenised live documents and scores are non-increasing.",
               required_probes=["fts-queries"]),
    "C24": chk([e1("conc", 1, stable=0)], CONC_RULE, "Index creation/optimisation racing with column rewrites and compaction in all commit orders; indexed = unindexed query results afterwards.",
               required_probes=["overlapped", "txn-committed"]),
    "C30": chk([e3("io", 3), e3("io", 1, faults=1), e3("io", 1, drop=1)], IO_RULE,
               "Seeded search over range lists, store parameters and read completion orders against the real ScanScheduler/FileScheduler; "
               "one buffer per range with the file's bytes; every request completes (stuck = violation); dropping the scheduler resolves pending requests.",
               required_probes=["request-ok", "reads-issued"]),
    "C31": chk([e3("writer", 2), e3("writer", 1, faults=1)], WRITER_RULE,
               "Seeded search over chunk sequences, part completion orders and part/complete failures against the real ObjectWriter; "
               "object equals the concatenation after shutdown, nothing visible before, nothing left after abort/drop/failure.",
               required_probes=["shutdown-ok", "multipart"]),
    "C38": chk([e1("seq", 1)], SEQ_RULE + "; the main party's session has index/metadata cache capacities drawn from {0, 2 kB, 64 MiB}; a second table shares the session; extra steps: append by another party followed by refresh, and drop-all-objects + re-create at the same URI within the session",
               "Seeded histories; every read through the long-lived shared session (scan, counts, indexed filters, load_indices) must equal the model and the same read through a fresh session.",
               required_probes=["foreign-write", "recreated-at-same-uri"]),
    "C39": chk([{"engine": "e6", "opts": [], "weight": 1, "minimise": False}],
               "one run = a table with 1-2 MemWAL regions and a short sequential prefix, then 2-3 parties each performing 1-4 MemWAL operations "
               "(advance / append entry / seal / flush / merge / owner change / trim) chosen from the state they read, under the seeded scheduler at the storage gate; "
               "distinct = distinct decision sequences; non-trivial = parties overlapped at the gate",
               "Seeded search over interleavings of MemWAL writers; a monitor over every committed version checks unique, consecutive generations, only the latest open, "
               "forward-only states, trimmed generations staying gone; party results show that no two concurrent changes of one generation both committed.",
               required_probes=["overlapped", "ok-advance"]),
    "C42": chk([e1("seq", 1)], SEQ_RULE + "; at the end every object under the table root is copied byte for byte to another prefix of the simulated store, the original is deleted, and a fresh party opens the copy",
               "Partial claim (object-store layout, not the local-filesystem fast paths): every version, tag and indexed query of the copy equals the model snapshots of the original.",
               required_probes=["objects-copied"]),
    "C41": chk([{"engine": "e4", "opts": [], "weight": 1, "minimise": False}],
               "one run = a random batch sequence and memory limit (0 .. unlimited, so the spill goes to a real temp file or stays in memory), "
               "one writer and 1-3 readers opened before/during/after writing (some twice, some dropped early); the simulator interleaves the "
               "parties at operation boundaries (write / finish / open / next / drop) in seeded order, a blocked `next` stays pending while others "
               "run; plus one chunk_stream / chunk_concat_stream case per run; distinct = distinct step interleavings; non-trivial = >= 1 batch and >= 1 reader",
               "Seeded search over writer/reader interleavings of the replay spill; every reader that reaches the end saw exactly the written batches in order; "
               "after finish every reader completes (bounded liveness); the chunker part is input-driven (one generated case per run).",
               required_probes=["reader-complete", "spilled-to-disk"]),
    "C33": chk([e2(1)], E2_RULE, "Partial claim: latest-version discovery under arbitrary listing order and staging files, via the commit-protocol races (fresh reader resolves the highest committed version)."),
}

# properties whose checks are registered in MANIFEST.json (clean on the unchanged tree)
REGISTERED = ["C01", "C02", "C03", "C04", "C05", "C06", "C07", "C08", "C09", "C10", "C11", "C12", "C13", "C14", "C15", "C16", "C17", "C18", "C19", "C20", "C22", "C23", "C24", "C30", "C31", "C33", "C36", "C37", "C38", "C39", "C41", "C42"]

PURE = "pure function of its inputs: no task, timer, storage call, clock, fault or second party for a scheduler or fault injector to decide (DESIGN.md section 6)"
NOT_APPLICABLE = {
    "C21": "Row-id mask algebra and index-result combination: " + PURE,
    "C25": "File round trip is a pure function of (data, writer config, read request); its schedule-dependent part (range coalescing under any completion order) is decided under C30",
    "C26": "Compression codecs: " + PURE,
    "C27": "Rep/def level conversion: " + PURE,
    "C28": "FSST / FastLanes kernels: " + PURE,
    "C29": "Whether a zone/page is pruned is a pure function of recorded statistics and the predicate",
    "C32": "Metadata encode/decode: " + PURE,
    "C34": "Row-id sequence and index operations: " + PURE,
    "C35": "Distance kernels: pure numeric functions",
    "C40": "Arrow helper transformations: " + PURE,
    "C43": "Schema/projection algebra: " + PURE,
}
# claimed in DESIGN.md but the check is not registered (yet): listed so MANIFEST stays complete
NOT_CLAIMED_YET = {p: "not claimed: the check for this property is not built/registered (see DESIGN.md); not a not-applicable verdict" for p in
                   ["C%02d" % i for i in range(1, 44)] if p not in NOT_APPLICABLE}

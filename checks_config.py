"""Per-property check configuration: which engine batches run, with which options,
and how evidence describes them. Read by ./check."""

COMPONENTS = {
    "real": [
        "lance dataset/transaction/conflict-resolver/commit handlers/manifest I/O",
        "lance file writer+reader and encodings, I/O scheduler, object writer",
        "scalar/vector/FTS indices, DataFusion planning and execution",
        "tokio current-thread executor (paused virtual clock)",
    ],
    "simulated": [
        "object store (SimDisk: atomic put, conditional put, multipart, list, copy, delete)",
        "external manifest store, lock service",
        "OS randomness (LD_PRELOAD splitmix64 shim), wall clock (shim), timers (tokio virtual time)",
        "CPU pool (spawn_cpu runs inline under cfg lance_verif)",
    ],
    "not_exercised": ["local-filesystem fast paths", "cloud providers (S3/GCS/Azure/DynamoDB)", "language bindings"],
}

SEQ_RULE = ("one run = one seeded history on a fresh simulated table (random commit handler, storage version, "
            "store knobs, stable-row-id setting); distinct = distinct operation-kind sequences; non-trivial = "
            "history of >= 3 executed operations")


def seq(prop, **kw):
    d = {"engine": "e1", "opts": [("mode", "seq")], "weight": 1}
    d.update(kw)
    return d


CHECKS = {
    "C11": {"batches": [seq("C11")], "rule": SEQ_RULE},
    "C12": {"batches": [seq("C12")], "rule": SEQ_RULE},
    "C05": {"batches": [seq("C05")], "rule": SEQ_RULE},
}

# properties whose checks are registered in MANIFEST.json (clean on the unchanged tree)
REGISTERED = []

PURE = "pure function of its inputs: no task, timer, storage call, clock, fault or second party for a scheduler or fault injector to decide (DESIGN.md section 6)"
NOT_APPLICABLE = {
    "C21": "Row-id mask algebra and index-result combination: " + PURE,
    "C25": "File round trip is a pure function of (data, writer config, read request); its schedule-dependent part (range coalescing under any completion order) is decided under C30",
    "C26": "Compression codecs: " + PURE,
    "C27": "Rep/def level conversion: " + PURE,
    "C28": "FSST / FastLanes kernels: " + PURE,
    "C29": "Whether a zone/page is pruned is a pure function of recorded statistics and the predicate",
    "C32": "Metadata encode/decode: " + PURE,
    "C34": "Row-id sequence and index operations: " + PURE,
    "C35": "Distance kernels: pure numeric functions",
    "C40": "Arrow helper transformations: " + PURE,
    "C43": "Schema/projection algebra: " + PURE,
}
# claimed in DESIGN.md but the check is not registered (yet): listed so MANIFEST stays complete
NOT_CLAIMED_YET = {p: "check not registered yet: machinery under construction (see DESIGN.md build order)" for p in
                   ["C%02d" % i for i in range(1, 44)] if p not in NOT_APPLICABLE}

"""Per-property check configuration: which engine batches run, with which options,
and how evidence describes them. Read by ./check."""

COMPONENTS = {
    "real": [
        "lance dataset/transaction/conflict-resolver/commit handlers/manifest I/O",
        "lance file writer+reader and encodings, I/O scheduler, object writer",
        "scalar/vector/FTS indices, DataFusion planning and execution",
        "tokio current-thread executor (paused virtual clock)",
    ],
    "simulated": [
        "object store (SimDisk: atomic put, conditional put, multipart, list, copy, delete)",
        "external manifest store, lock service",
        "OS randomness (LD_PRELOAD splitmix64 shim), wall clock (shim), timers (tokio virtual time)",
        "CPU pool (spawn_cpu runs inline under cfg lance_verif)",
    ],
    "not_exercised": ["local-filesystem fast paths", "cloud providers (S3/GCS/Azure/DynamoDB)", "language bindings"],
}

SEQ_RULE = ("one run = one seeded history on a fresh simulated table (random commit handler, storage version, "
            "store knobs, stable-row-id setting); distinct = distinct operation-kind sequences; non-trivial = "
            "history of >= 3 executed operations")


def seq(prop, **kw):
    d = {"engine": "e1", "opts": [("mode", "seq")], "weight": 1}
    d.update(kw)
    return d


CHECKS = {
    "C11": {"batches": [seq("C11")], "rule": SEQ_RULE},
    "C12": {"batches": [seq("C12")], "rule": SEQ_RULE},
    "C05": {"batches": [seq("C05")], "rule": SEQ_RULE},
}

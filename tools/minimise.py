#!/usr/bin/env python3
"""Developer helper: minimise one seed of an engine/prop with the check driver's ddmin.
usage: tools/minimise.py <prop> <seed> [--engine e1] [--opt k=v ...] [--sig SUBSTR]"""
import sys, os, json
from importlib.machinery import SourceFileLoader
ROOT = os.path.dirname(os.path.dirname(os.path.abspath(__file__)))
chk = SourceFileLoader("chk", os.path.join(ROOT, "check")).load_module()
a = sys.argv[1:]
prop, seed = a[0], int(a[1])
engine = "e1"; opts = []; sig = None
i = 2
while i < len(a):
    if a[i] == "--engine": engine = a[i+1]; i += 2
    elif a[i] == "--opt": k, v = a[i+1].split("=", 1); opts.append([k, v]); i += 2
    elif a[i] == "--sig": sig = a[i+1]; i += 2
    else: i += 1
chk.build()
batch = {"engine": engine, "opts": opts}
r = chk.run_one(engine, prop, seed, "quick", opts)
vs = r.get("violations", [])
if sig:
    vs = [v for v in vs if sig in v["sig"]]
if not vs:
    print("no violation", r.get("status")); sys.exit(0)
r["violations"] = vs + [v for v in r["violations"] if v not in vs]
skip, max_steps, best = chk.minimise(batch, prop, r, "quick", budget_runs=120)
print("skip", ",".join(map(str, skip)), "max_steps", max_steps)
for s in best["script"]: print("   ", s)
for v in best["violations"][:3]: print("  V", v["prop"], v["sig"], "step", v["step"], "\n     ", v["detail"][:800])

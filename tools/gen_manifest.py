#!/usr/bin/env python3
"""Generate /verif/MANIFEST.json from checks_config.py (single source of truth)."""
import json, os, sys
ROOT = os.path.dirname(os.path.dirname(os.path.abspath(__file__)))
sys.path.insert(0, ROOT)
from checks_config import CHECKS, REGISTERED, NOT_APPLICABLE, NOT_CLAIMED_YET

checks = []
for pid in sorted(REGISTERED):
    c = CHECKS[pid]
    checks.append({
        "property_id": pid,
        "quick_cmd": "./check %s --tier quick" % pid,
        "thorough_cmd": "./check %s --tier thorough" % pid,
        "evidence_file": "/verif/evidence/%s.json" % pid,
        "replay_cmd_template": "./check replay {path}",
        "engine": "+".join(sorted(set(b["engine"] + ":" + dict(b["opts"]).get("mode", "") for b in c["batches"]))),
        "level_claimed": {"category": "exploration", "text": c["level_text"], "design_ref": c.get("design_ref", "DESIGN.md section 5")},
        "level_note": c["level_note"],
        "technique": c.get("technique", "deterministic simulation with fault injection: seeded search over histories x schedules x faults, oracle = reference model / differential / disk monitors"),
    })
na = [{"property_id": k, "reason": v} for k, v in sorted(NOT_APPLICABLE.items())]
na += [{"property_id": k, "reason": v} for k, v in sorted(NOT_CLAIMED_YET.items()) if k not in REGISTERED]
m = {
    "version": 1,
    "setup_cmd": "./check build",
    "hooks": {
        "guard": "--cfg lance_verif",
        "enable": "rustflags = [\"--cfg\", \"lance_verif\"] in /verif/sim/.cargo/config.toml (the simulator crate depends on /repo/rust/* by path); nothing in /repo sets it",
        "baseline_off_cmd": "cd /repo && cargo nextest run --workspace --no-fail-fast --offline || cargo test --workspace --no-fail-fast --offline",
        "source_commits": ["4bc49fe", "270b71c"],
        "add_only": True,  # 4bc49fe adds a cfg(lance_verif) variant of spawn_cpu plus one cfg(not(lance_verif)) attribute line; 270b71c adds cfg-guarded statements only
    },
    "engines": [
        {"name": "lancesim", "path": "/verif/sim", "serves_properties": sorted(REGISTERED), "kind_free_text": "single-process deterministic simulator: real lance code for every party on one paused tokio runtime; simulated object store / external manifest store / lock service / clock / OS randomness; seeded scheduler at the storage gate; fault plan"},
    ],
    "checks": checks,
    "not_applicable": na,
    "notes": "See DESIGN.md. Known findings: known_findings.jsonl. Exit 2 = harness problem (never a verdict).",
}
json.dump(m, open(os.path.join(ROOT, "MANIFEST.json"), "w"), indent=1)
print("wrote MANIFEST.json with %d checks, %d not_applicable" % (len(checks), len(na)))

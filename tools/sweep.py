#!/usr/bin/env python3
"""Developer helper: run N seeds of an engine/prop in parallel and classify outcomes.
usage: tools/sweep.py <prop> <first> <last> [--engine e1] [--opt k=v ...] [--show SIG]"""
import json, sys, subprocess, collections, os
from concurrent.futures import ThreadPoolExecutor
ROOT = os.path.dirname(os.path.dirname(os.path.abspath(__file__)))
a = sys.argv[1:]
prop, first, last = a[0], int(a[1]), int(a[2])
engine = "e1"; opts = []; show = None; tier = "quick"
i = 3
while i < len(a):
    if a[i] == "--engine": engine = a[i+1]; i += 2
    elif a[i] == "--opt": opts += ["--opt", a[i+1]]; i += 2
    elif a[i] == "--show": show = a[i+1]; i += 2
    elif a[i] == "--tier": tier = a[i+1]; i += 2
    else: i += 1
subprocess.run(["cargo", "build", "--offline", "--quiet"], cwd=ROOT + "/sim", check=True, stderr=subprocess.DEVNULL)  # never sweep a stale binary
env = dict(os.environ); env["LD_PRELOAD"] = ROOT + "/shim/libdetrand.so"; env["LANCE_PROCESS_IO_THREADS_LIMIT"] = "0"; env["LANCE_CPU_THREADS"] = "1"; env["RAYON_NUM_THREADS"] = "1"
def run(seed):
    r = subprocess.run(["setarch", "-R", ROOT + "/target/debug/lancesim", "run", "--engine", engine, "--prop", prop, "--seed", str(seed), "--tier", tier] + opts, env=env, capture_output=True, text=True)
    try: return json.loads(r.stdout.strip().splitlines()[-1])
    except Exception: return {"status": "harness_error", "harness_error": r.stderr[-300:], "seed": seed, "violations": []}
with ThreadPoolExecutor(16) as ex:
    res = list(ex.map(run, range(first, last + 1)))
c = collections.Counter(); ex_seed = {}
tot_ms = 0
for r in res:
    tot_ms += r.get("wall_ms", 0)
    if r["status"] == "ok": c["ok"] += 1; continue
    if r["status"] == "harness_error": k = ("HE", (r.get("harness_error") or "")[:80])
    else:
        v = r["violations"][0]; k = (v["prop"], v["sig"])
    c[k] += 1; ex_seed.setdefault(k, []).append(r["seed"])
for k, v in c.most_common():
    print(v, k, ex_seed.get(k, [])[:6] if k != "ok" else "")
print("avg wall ms", tot_ms / max(1, len(res)))
if show:
    for r in res:
        if r["status"] == "violation" and show in r["violations"][0]["sig"]:
            print("seed", r["seed"], r["knobs"])
            for s in r["script"]: print("   ", s)
            for v in r["violations"][:2]: print("  V", v["prop"], v["oracle"], v["sig"], "step", v["step"], "\n     ", v["detail"][:1200])
            break

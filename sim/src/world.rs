//! The simulated world: one shared object store ("SimDisk"), the gate at which
//! every storage call of every party parks, the fault plan, the simulated wall
//! clock and the disk-level monitors (immutability, delete log).
//!
//! Everything here is deterministic: no OS randomness, no real clock, BTreeMaps only.

use std::collections::{BTreeMap, BTreeSet, HashMap};
use std::ops::Range;
use std::sync::{Arc, Mutex};

use async_trait::async_trait;
use bytes::Bytes;
use chrono::{DateTime, TimeZone, Utc};
use futures::stream::BoxStream;
use futures::{FutureExt, StreamExt};
use object_store::path::Path;
use object_store::{
    Error as OsError, GetOptions, GetRange, GetResult, GetResultPayload, ListResult,
    MultipartUpload, ObjectMeta, ObjectStore, PutMode, PutMultipartOptions, PutOptions,
    PutPayload, PutResult, Result as OsResult, UploadPart,
};
use serde::Serialize;
use tokio::sync::oneshot;

pub type ActorId = u32;

/// 2026-01-01T00:00:00Z
pub const EPOCH_NS: i64 = 1_767_225_600_000_000_000;

#[derive(Clone, Copy, Debug, PartialEq, Eq, Hash, PartialOrd, Ord, Serialize)]
pub enum CallKind {
    Put,
    PutCreate,
    PutUpdate,
    MpCreate,
    MpPart,
    MpComplete,
    MpAbort,
    Get,
    Head,
    Delete,
    List,
    ListDelim,
    Copy,
    CopyIfNotExists,
    ExtGet,
    ExtGetLatest,
    ExtPutIfNotExists,
    ExtPutIfExists,
    ExtDelete,
    LockAcquire,
    LockRelease,
}

impl CallKind {
    pub fn is_mutating(self) -> bool {
        !matches!(
            self,
            Self::Get | Self::Head | Self::List | Self::ListDelim | Self::ExtGet | Self::ExtGetLatest
        )
    }
    pub fn short(self) -> &'static str {
        match self {
            Self::Put => "put",
            Self::PutCreate => "putc",
            Self::PutUpdate => "putu",
            Self::MpCreate => "mpc",
            Self::MpPart => "mpp",
            Self::MpComplete => "mpf",
            Self::MpAbort => "mpa",
            Self::Get => "get",
            Self::Head => "head",
            Self::Delete => "del",
            Self::List => "ls",
            Self::ListDelim => "lsd",
            Self::Copy => "cp",
            Self::CopyIfNotExists => "cpc",
            Self::ExtGet => "xget",
            Self::ExtGetLatest => "xlatest",
            Self::ExtPutIfNotExists => "xputc",
            Self::ExtPutIfExists => "xputu",
            Self::ExtDelete => "xdel",
            Self::LockAcquire => "lock",
            Self::LockRelease => "unlock",
        }
    }
}

/// What the scheduler / fault plan decides for one call.
#[derive(Clone, Copy, Debug, PartialEq, Eq, Hash, Serialize)]
pub enum Decision {
    Proceed,
    /// fail with a generic error, no effect
    FailPre,
    /// apply the effect, then return a generic error (lost response)
    FailPost,
    /// lost response followed by the store client's internal retry: the effect is
    /// applied once, the caller sees what the *second* attempt would see
    /// (AlreadyExists for a conditional create)
    Dup,
    /// the party dies before the effect
    CrashPre,
    /// the party dies right after the effect
    CrashPost,
    /// fail with a "connection reset by peer" style error, no effect
    ConnReset,
}

impl Decision {
    pub fn short(self) -> &'static str {
        match self {
            Self::Proceed => "ok",
            Self::FailPre => "F-err",
            Self::FailPost => "F-amb",
            Self::Dup => "F-dup",
            Self::CrashPre => "F-crash-pre",
            Self::CrashPost => "F-crash-post",
            Self::ConnReset => "F-reset",
        }
    }
}

/// Classes of paths (for signatures, fault targeting and monitors).
#[derive(Clone, Copy, Debug, PartialEq, Eq, Hash, PartialOrd, Ord, Serialize)]
pub enum PathClass {
    Manifest,
    ManifestStaging,
    Txn,
    Data,
    Deletion,
    Index,
    Tag,
    Branch,
    Other,
}

pub fn path_class(p: &str) -> PathClass {
    let last = p.rsplit('/').next().unwrap_or("");
    if p.contains("/_versions/") || p.starts_with("_versions/") {
        if last.ends_with(".manifest") && !last.starts_with('.') && !last.starts_with('d') {
            // <n>.manifest (V1 or V2)
            if last[..last.len() - 9].chars().all(|c| c.is_ascii_digit()) {
                return PathClass::Manifest;
            }
            return PathClass::ManifestStaging;
        }
        if last.starts_with('d') && last.ends_with(".manifest") {
            return PathClass::Manifest; // detached manifests are immutable too
        }
        return PathClass::ManifestStaging;
    }
    if p.contains("/_transactions/") {
        return PathClass::Txn;
    }
    if p.contains("/_deletions/") {
        return PathClass::Deletion;
    }
    if p.contains("/_indices/") {
        return PathClass::Index;
    }
    if p.contains("/_refs/tags/") {
        return PathClass::Tag;
    }
    if p.contains("/_refs/branches/") {
        return PathClass::Branch;
    }
    if p.contains("/data/") {
        return PathClass::Data;
    }
    PathClass::Other
}

/// Canonical form of a path for hashing interleavings: uuids and long hex
/// strings replaced by `#`.
pub fn canon_path(p: &str) -> String {
    let mut out = String::with_capacity(p.len());
    let mut run = String::new();
    let flush = |run: &mut String, out: &mut String| {
        if run.len() >= 16 {
            out.push('#');
        } else {
            out.push_str(run);
        }
        run.clear();
    };
    for c in p.chars() {
        if c.is_ascii_hexdigit() || c == '-' {
            run.push(c);
        } else {
            flush(&mut run, &mut out);
            out.push(c);
        }
    }
    flush(&mut run, &mut out);
    out
}

#[derive(Clone, Debug)]
pub struct Obj {
    pub data: Bytes,
    pub etag: u64,
    pub mtime_ns: i64,
    pub writer: ActorId,
}

#[derive(Clone, Debug, Serialize)]
pub struct Event {
    pub n: u64,
    pub actor: ActorId,
    pub seq: u64,
    pub kind: CallKind,
    pub path: String,
    pub decision: Decision,
    pub ok: bool,
}

#[derive(Clone, Debug)]
pub struct ParkedInfo {
    pub id: u64,
    pub actor: ActorId,
    pub seq: u64,
    pub kind: CallKind,
    pub path: String,
    pub size: usize,
}

struct Parked {
    info: ParkedInfo,
    tx: oneshot::Sender<Decision>,
}

#[derive(Clone, Debug)]
pub struct StoreKnobs {
    /// delete of a missing object: true = Ok (S3), false = NotFound (GCS/local)
    pub delete_missing_ok: bool,
    /// listing order: true = lexical, false = seeded arbitrary
    pub list_lexical: bool,
    pub list_salt: u64,
    /// multipart complete: true = fails with "Missing part" unless every part handed out has
    /// completed (object_store's client-side part list, S3/GCS/Azure); false = assembles the parts
    /// that arrived (object_store's InMemory / LocalFileSystem uploads do not validate)
    pub mp_validates_parts: bool,
}

impl Default for StoreKnobs {
    fn default() -> Self {
        Self {
            delete_missing_ok: true,
            list_lexical: true,
            list_salt: 0,
            mp_validates_parts: true,
        }
    }
}

struct Upload {
    actor: ActorId,
    path: String,
    parts: BTreeMap<usize, Bytes>,
    next_part: usize,
    done: bool,
}

#[derive(Clone, Debug)]
pub struct ExtEntry {
    pub path: String,
    pub size: Option<u64>,
    pub e_tag: Option<String>,
}

#[derive(Default, Clone, Debug, Serialize)]
pub struct Stats {
    pub calls: u64,
    pub faults: BTreeMap<String, u64>,
    pub calls_by_kind: BTreeMap<String, u64>,
}

pub struct Inner {
    pub objects: BTreeMap<String, Obj>,
    next_etag: u64,
    uploads: BTreeMap<u64, Upload>,
    next_upload: u64,
    pub clock_ns: i64,
    pub gated: bool,
    parked: Vec<Parked>,
    arrivals: u64,
    actor_seq: BTreeMap<ActorId, u64>,
    pub dead: BTreeSet<ActorId>,
    pub plan: HashMap<(ActorId, u64), Decision>,
    pub log: Vec<Event>,
    pub log_enabled: bool,
    pub immut_violations: Vec<String>,
    pub delete_log: Vec<(ActorId, String)>,
    pub knobs: StoreKnobs,
    pub stats: Stats,
    pub ext: BTreeMap<(String, u64), ExtEntry>,
    pub ext_stale: bool,
    pub locks: BTreeMap<u64, ActorId>,
    /// count calls only (dry run to learn how many calls an operation makes)
    events: u64,
}

pub struct World {
    pub inner: Mutex<Inner>,
}

#[derive(Clone)]
pub struct Snapshot {
    objects: BTreeMap<String, Obj>,
    next_etag: u64,
    clock_ns: i64,
    ext: BTreeMap<(String, u64), ExtEntry>,
}

extern "C" {
    // provided by the LD_PRELOAD shim; weak so the binary runs without it
}

type SetClockFn = unsafe extern "C" fn(i64);
type ReseedFn = unsafe extern "C" fn(u64);

fn dlsym_fn(name: &str) -> Option<*mut libc::c_void> {
    let c = std::ffi::CString::new(name).unwrap();
    let p = unsafe { libc::dlsym(libc::RTLD_DEFAULT, c.as_ptr()) };
    if p.is_null() {
        None
    } else {
        Some(p)
    }
}

pub fn shim_present() -> bool {
    dlsym_fn("verif_shim_present").is_some()
}

pub fn shim_reseed(seed: u64) {
    if let Some(p) = dlsym_fn("verif_reseed") {
        let f: ReseedFn = unsafe { std::mem::transmute(p) };
        unsafe { f(seed) };
    }
}

pub fn shim_set_clock(ns: i64) {
    if let Some(p) = dlsym_fn("verif_set_clock_ns") {
        let f: SetClockFn = unsafe { std::mem::transmute(p) };
        unsafe { f(ns) };
    }
}

fn generic_err(msg: &str) -> OsError {
    OsError::Generic {
        store: "sim",
        source: msg.to_string().into(),
    }
}

fn ts(ns: i64) -> DateTime<Utc> {
    Utc.timestamp_nanos(ns)
}

impl World {
    pub fn new() -> Arc<Self> {
        let w = Arc::new(Self {
            inner: Mutex::new(Inner {
                objects: BTreeMap::new(),
                next_etag: 1,
                uploads: BTreeMap::new(),
                next_upload: 1,
                clock_ns: EPOCH_NS,
                gated: false,
                parked: Vec::new(),
                arrivals: 0,
                actor_seq: BTreeMap::new(),
                dead: BTreeSet::new(),
                plan: HashMap::new(),
                log: Vec::new(),
                log_enabled: true,
                immut_violations: Vec::new(),
                delete_log: Vec::new(),
                knobs: StoreKnobs::default(),
                stats: Stats::default(),
                ext: BTreeMap::new(),
                ext_stale: false,
                locks: BTreeMap::new(),
                events: 0,
            }),
        });
        shim_set_clock(EPOCH_NS);
        w
    }

    pub fn lock(&self) -> std::sync::MutexGuard<'_, Inner> {
        self.inner.lock().unwrap()
    }

    // ---- clock -------------------------------------------------------------
    pub fn now_ns(&self) -> i64 {
        self.lock().clock_ns
    }
    pub fn advance_clock(&self, d_ns: i64) {
        let mut g = self.lock();
        g.clock_ns += d_ns;
        shim_set_clock(g.clock_ns);
    }

    // ---- modes / faults ------------------------------------------------------
    pub fn set_gated(&self, gated: bool) {
        self.lock().gated = gated;
    }
    pub fn set_plan(&self, actor: ActorId, call: u64, d: Decision) {
        self.lock().plan.insert((actor, call), d);
    }
    pub fn clear_plan(&self) {
        self.lock().plan.clear();
    }
    pub fn actor_calls(&self, actor: ActorId) -> u64 {
        *self.lock().actor_seq.get(&actor).unwrap_or(&0)
    }
    pub fn kill(&self, actor: ActorId) {
        let mut g = self.lock();
        g.dead.insert(actor);
        // un-completed multipart uploads of a dead party vanish
        g.uploads.retain(|_, u| u.actor != actor);
        // perfect fencing: its locks are released only now
        g.locks.retain(|_, a| *a != actor);
        // any parked call of this actor is released with a crash decision
        let mut keep = Vec::new();
        for p in g.parked.drain(..) {
            if p.info.actor == actor {
                let _ = p.tx.send(Decision::CrashPre);
            } else {
                keep.push(p);
            }
        }
        g.parked = keep;
    }
    pub fn is_dead(&self, actor: ActorId) -> bool {
        self.lock().dead.contains(&actor)
    }

    pub fn snapshot(&self) -> Snapshot {
        let g = self.lock();
        Snapshot {
            objects: g.objects.clone(),
            next_etag: g.next_etag,
            clock_ns: g.clock_ns,
            ext: g.ext.clone(),
        }
    }
    pub fn restore(&self, s: &Snapshot) {
        let mut g = self.lock();
        g.objects = s.objects.clone();
        g.next_etag = s.next_etag;
        g.clock_ns = s.clock_ns;
        g.ext = s.ext.clone();
        g.uploads.clear();
        g.locks.clear();
        g.plan.clear();
        shim_set_clock(g.clock_ns);
    }

    pub fn parked(&self) -> Vec<ParkedInfo> {
        self.lock().parked.iter().map(|p| p.info.clone()).collect()
    }

    /// Release one parked call with a decision. Returns false if it is gone.
    pub fn release(&self, id: u64, d: Decision) -> bool {
        let mut g = self.lock();
        if let Some(pos) = g.parked.iter().position(|p| p.info.id == id) {
            let p = g.parked.remove(pos);
            drop(g);
            p.tx.send(d).is_ok()
        } else {
            false
        }
    }

    /// Release everything that is parked (used when a gated phase ends).
    pub fn release_all(&self, d: Decision) {
        let ps: Vec<Parked> = self.lock().parked.drain(..).collect();
        for p in ps {
            let _ = p.tx.send(d);
        }
    }

    pub fn list_paths(&self, prefix: &str) -> Vec<String> {
        self.lock()
            .objects
            .keys()
            .filter(|k| k.starts_with(prefix))
            .cloned()
            .collect()
    }
    pub fn get_raw(&self, path: &str) -> Option<Bytes> {
        self.lock().objects.get(path).map(|o| o.data.clone())
    }
    pub fn exists(&self, path: &str) -> bool {
        self.lock().objects.contains_key(path)
    }
    /// Harness-level mutation that bypasses gate/monitors (e.g. foreign writer, copy of a table root)
    pub fn put_raw(&self, path: &str, data: Bytes) {
        let mut g = self.lock();
        let etag = g.next_etag;
        g.next_etag += 1;
        let mtime = g.clock_ns;
        g.objects.insert(
            path.to_string(),
            Obj {
                data,
                etag,
                mtime_ns: mtime,
                writer: u32::MAX,
            },
        );
    }
    pub fn delete_raw(&self, path: &str) {
        self.lock().objects.remove(path);
    }

    /// A digest of the disk (paths canonicalised, sizes) for determinism checks.
    pub fn digest(&self) -> u64 {
        let g = self.lock();
        let mut h = 0u64;
        for (k, v) in g.objects.iter() {
            // index files are excluded by size: some index builders (n-gram) lay their files out
            // in an order that depends on worker-thread timing; query results do not
            let size = if path_class(k) == PathClass::Index { 0 } else { v.data.len() as u64 };
            // names are canonicalised (random uuids drawn by worker threads are not reproducible)
            // and the combination is order independent
            if std::env::var("VERIF_DEBUG_DIGEST").is_ok() {
                eprintln!("digest-object {} {} (raw {} {})", canon_path(k), size, k, v.data.len());
            }
            h = h.wrapping_add(crate::rng::mix(&[crate::rng::hash_str(&canon_path(k)), size]));
        }
        h
    }

    pub fn take_log(&self) -> Vec<Event> {
        std::mem::take(&mut self.lock().log)
    }
    pub fn event_count(&self) -> u64 {
        self.lock().events
    }

    // ---- the gate ------------------------------------------------------------
    pub(crate) async fn enter(&self, actor: ActorId, kind: CallKind, path: &str, size: usize) -> (u64, Decision) {
        let rx;
        let seq;
        {
            let mut g = self.lock();
            if g.dead.contains(&actor) {
                return (0, Decision::CrashPre);
            }
            let e = g.actor_seq.entry(actor).or_insert(0);
            *e += 1;
            seq = *e;
            g.events += 1;
            g.stats.calls += 1;
            *g.stats.calls_by_kind.entry(kind.short().to_string()).or_insert(0) += 1;
            if !g.gated {
                let d = g.plan.remove(&(actor, seq)).unwrap_or(Decision::Proceed);
                return (seq, d);
            }
            g.arrivals += 1;
            let id = g.arrivals;
            let (tx, r) = oneshot::channel();
            rx = r;
            g.parked.push(Parked {
                info: ParkedInfo {
                    id,
                    actor,
                    seq,
                    kind,
                    path: path.to_string(),
                    size,
                },
                tx,
            });
        }
        match rx.await {
            Ok(d) => (seq, d),
            Err(_) => (seq, Decision::FailPre),
        }
    }

    pub(crate) fn record(&self, actor: ActorId, seq: u64, kind: CallKind, path: &str, d: Decision, ok: bool) {
        let mut g = self.lock();
        if seq == 0 {
            // call of a party that is already dead: not an injected fault, not logged
            return;
        }
        if d != Decision::Proceed {
            *g.stats.faults.entry(d.short().to_string()).or_insert(0) += 1;
        }
        if matches!(d, Decision::CrashPre | Decision::CrashPost) {
            g.dead.insert(actor);
            g.uploads.retain(|_, u| u.actor != actor);
            g.locks.retain(|_, a| *a != actor);
        }
        if g.log_enabled {
            let n = g.log.len() as u64;
            g.log.push(Event {
                n,
                actor,
                seq,
                kind,
                path: path.to_string(),
                decision: d,
                ok,
            });
        }
    }

    fn tick(g: &mut Inner) -> i64 {
        // every mutating effect advances the wall clock by 1 ms so that
        // last_modified values are strictly increasing
        g.clock_ns += 1_000_000;
        shim_set_clock(g.clock_ns);
        g.clock_ns
    }

    fn store_obj(g: &mut Inner, actor: ActorId, path: &str, data: Bytes) -> u64 {
        // O-immut monitor
        if let Some(old) = g.objects.get(path) {
            if old.data != data {
                match path_class(path) {
                    PathClass::Manifest
                    | PathClass::Data
                    | PathClass::Deletion
                    | PathClass::Index
                    | PathClass::Txn => {
                        g.immut_violations.push(format!(
                            "actor {} replaced {} ({} bytes -> {} bytes, different content)",
                            actor,
                            path,
                            old.data.len(),
                            data.len()
                        ));
                    }
                    _ => {}
                }
            }
        }
        let etag = g.next_etag;
        g.next_etag += 1;
        let mtime = Self::tick(g);
        g.objects.insert(
            path.to_string(),
            Obj {
                data,
                etag,
                mtime_ns: mtime,
                writer: actor,
            },
        );
        etag
    }

    fn meta(path: &str, o: &Obj) -> ObjectMeta {
        ObjectMeta {
            // keys are stored in their raw (already percent-encoded) form
            location: Path::parse(path).unwrap_or_else(|_| Path::from(path)),
            last_modified: ts(o.mtime_ns),
            size: o.data.len() as u64,
            e_tag: Some(o.etag.to_string()),
            version: None,
        }
    }
}

fn not_found(path: &str) -> OsError {
    OsError::NotFound {
        path: path.to_string(),
        source: "not found in sim disk".into(),
    }
}

fn already_exists(path: &str) -> OsError {
    OsError::AlreadyExists {
        path: path.to_string(),
        source: "already exists in sim disk".into(),
    }
}

fn payload_bytes(p: PutPayload) -> Bytes {
    let v: Vec<Bytes> = p.into_iter().collect();
    if v.len() == 1 {
        v.into_iter().next().unwrap()
    } else {
        let mut out = Vec::new();
        for b in v {
            out.extend_from_slice(&b);
        }
        Bytes::from(out)
    }
}

fn fault_error(d: Decision) -> OsError {
    match d {
        Decision::ConnReset => generic_err("sim fault: connection reset by peer"),
        Decision::CrashPre | Decision::CrashPost => generic_err("sim: party is dead"),
        _ => generic_err("sim fault: injected storage error"),
    }
}

/// The store handle of one party.
#[derive(Clone)]
pub struct ActorStore {
    pub w: Arc<World>,
    pub actor: ActorId,
}

impl std::fmt::Debug for ActorStore {
    fn fmt(&self, f: &mut std::fmt::Formatter<'_>) -> std::fmt::Result {
        write!(f, "SimStore(actor={})", self.actor)
    }
}
impl std::fmt::Display for ActorStore {
    fn fmt(&self, f: &mut std::fmt::Formatter<'_>) -> std::fmt::Result {
        write!(f, "SimStore(actor={})", self.actor)
    }
}

macro_rules! pre {
    ($self:ident, $kind:expr, $path:expr, $size:expr) => {{
        let (seq, d) = $self.w.enter($self.actor, $kind, $path, $size).await;
        match d {
            Decision::FailPre | Decision::CrashPre | Decision::ConnReset => {
                $self.w.record($self.actor, seq, $kind, $path, d, false);
                return Err(fault_error(d));
            }
            _ => {}
        }
        (seq, d)
    }};
}

impl ActorStore {
    fn finish<T>(&self, seq: u64, kind: CallKind, path: &str, d: Decision, res: OsResult<T>) -> OsResult<T> {
        self.w.record(self.actor, seq, kind, path, d, res.is_ok());
        match d {
            Decision::FailPost | Decision::CrashPost => Err(fault_error(d)),
            _ => res,
        }
    }
}

#[async_trait]
impl ObjectStore for ActorStore {
    async fn put_opts(&self, location: &Path, payload: PutPayload, opts: PutOptions) -> OsResult<PutResult> {
        let path = location.as_ref();
        let data = payload_bytes(payload);
        let kind = match opts.mode {
            PutMode::Overwrite => CallKind::Put,
            PutMode::Create => CallKind::PutCreate,
            PutMode::Update(_) => CallKind::PutUpdate,
        };
        let (seq, d) = pre!(self, kind, path, data.len());
        let res = {
            let mut g = self.w.lock();
            match &opts.mode {
                PutMode::Overwrite => {
                    let etag = World::store_obj(&mut g, self.actor, path, data);
                    Ok(PutResult {
                        e_tag: Some(etag.to_string()),
                        version: None,
                    })
                }
                PutMode::Create => {
                    if g.objects.contains_key(path) {
                        Err(already_exists(path))
                    } else {
                        let etag = World::store_obj(&mut g, self.actor, path, data);
                        Ok(PutResult {
                            e_tag: Some(etag.to_string()),
                            version: None,
                        })
                    }
                }
                PutMode::Update(v) => match g.objects.get(path) {
                    None => Err(OsError::Precondition {
                        path: path.to_string(),
                        source: "object does not exist".into(),
                    }),
                    Some(o) => {
                        if Some(o.etag.to_string()) != v.e_tag {
                            Err(OsError::Precondition {
                                path: path.to_string(),
                                source: "etag mismatch".into(),
                            })
                        } else {
                            let etag = World::store_obj(&mut g, self.actor, path, data);
                            Ok(PutResult {
                                e_tag: Some(etag.to_string()),
                                version: None,
                            })
                        }
                    }
                },
            }
        };
        if d == Decision::Dup {
            // the response was lost, the client retried: a conditional create now
            // sees its own object
            self.w.record(self.actor, seq, kind, path, d, false);
            return match opts.mode {
                PutMode::Create => Err(already_exists(path)),
                _ => res,
            };
        }
        self.finish(seq, kind, path, d, res)
    }

    async fn put_multipart_opts(&self, location: &Path, _opts: PutMultipartOptions) -> OsResult<Box<dyn MultipartUpload>> {
        let path = location.as_ref();
        let (seq, d) = pre!(self, CallKind::MpCreate, path, 0);
        let id = {
            let mut g = self.w.lock();
            let id = g.next_upload;
            g.next_upload += 1;
            g.uploads.insert(
                id,
                Upload {
                    actor: self.actor,
                    path: path.to_string(),
                    parts: BTreeMap::new(),
                    next_part: 0,
                    done: false,
                },
            );
            id
        };
        let up: Box<dyn MultipartUpload> = Box::new(SimUpload {
            store: self.clone(),
            id,
            path: path.to_string(),
        });
        self.finish(seq, CallKind::MpCreate, path, d, Ok(up))
    }

    async fn get_opts(&self, location: &Path, options: GetOptions) -> OsResult<GetResult> {
        let path = location.as_ref();
        let kind = if options.head { CallKind::Head } else { CallKind::Get };
        let (seq, d) = pre!(self, kind, path, 0);
        let res = (|| {
            let g = self.w.lock();
            let o = g.objects.get(path).ok_or_else(|| not_found(path))?;
            let meta = World::meta(path, o);
            options.check_preconditions(&meta)?;
            let len = o.data.len() as u64;
            let (range, data) = match &options.range {
                Some(r) => {
                    let r = r.as_range(len).map_err(|source| OsError::Generic {
                        store: "sim",
                        source: Box::new(source),
                    })?;
                    (r.clone(), o.data.slice(r.start as usize..r.end as usize))
                }
                None => (0..len, o.data.clone()),
            };
            let stream = futures::stream::once(futures::future::ready(Ok(data)));
            Ok(GetResult {
                payload: GetResultPayload::Stream(stream.boxed()),
                attributes: Default::default(),
                meta,
                range,
            })
        })();
        self.finish(seq, kind, path, d, res)
    }

    async fn get_ranges(&self, location: &Path, ranges: &[Range<u64>]) -> OsResult<Vec<Bytes>> {
        let path = location.as_ref();
        let (seq, d) = pre!(self, CallKind::Get, path, ranges.len());
        let res = (|| {
            let g = self.w.lock();
            let o = g.objects.get(path).ok_or_else(|| not_found(path))?;
            let len = o.data.len() as u64;
            ranges
                .iter()
                .map(|r| {
                    let r = GetRange::Bounded(r.clone()).as_range(len).map_err(|source| OsError::Generic {
                        store: "sim",
                        source: Box::new(source),
                    })?;
                    Ok(o.data.slice(r.start as usize..r.end as usize))
                })
                .collect::<OsResult<Vec<_>>>()
        })();
        self.finish(seq, CallKind::Get, path, d, res)
    }

    async fn head(&self, location: &Path) -> OsResult<ObjectMeta> {
        let path = location.as_ref();
        let (seq, d) = pre!(self, CallKind::Head, path, 0);
        let res = {
            let g = self.w.lock();
            g.objects.get(path).map(|o| World::meta(path, o)).ok_or_else(|| not_found(path))
        };
        self.finish(seq, CallKind::Head, path, d, res)
    }

    async fn delete(&self, location: &Path) -> OsResult<()> {
        let path = location.as_ref();
        let (seq, d) = pre!(self, CallKind::Delete, path, 0);
        let res = {
            let mut g = self.w.lock();
            let existed = g.objects.remove(path).is_some();
            if existed {
                World::tick(&mut g);
                g.delete_log.push((self.actor, path.to_string()));
                Ok(())
            } else if g.knobs.delete_missing_ok {
                Ok(())
            } else {
                Err(not_found(path))
            }
        };
        self.finish(seq, CallKind::Delete, path, d, res)
    }

    fn list(&self, prefix: Option<&Path>) -> BoxStream<'static, OsResult<ObjectMeta>> {
        let this = self.clone();
        let prefix: String = prefix.map(|p| p.as_ref().to_string()).unwrap_or_default();
        futures::stream::once(async move {
            let (seq, d) = this.w.enter(this.actor, CallKind::List, &prefix, 0).await;
            match d {
                Decision::FailPre | Decision::CrashPre | Decision::ConnReset | Decision::FailPost | Decision::CrashPost => {
                    this.w.record(this.actor, seq, CallKind::List, &prefix, d, false);
                    return futures::stream::iter(vec![Err(fault_error(d))]).boxed();
                }
                _ => {}
            }
            let items: Vec<OsResult<ObjectMeta>> = {
                let g = this.w.lock();
                let pfx = if prefix.is_empty() { String::new() } else { format!("{}/", prefix) };
                let mut v: Vec<ObjectMeta> = g
                    .objects
                    .iter()
                    .filter(|(k, _)| k.starts_with(&pfx))
                    .map(|(k, o)| World::meta(k, o))
                    .collect();
                if !g.knobs.list_lexical {
                    let salt = g.knobs.list_salt;
                    v.sort_by_key(|m| crate::rng::mix(&[salt, crate::rng::hash_str(m.location.as_ref())]));
                }
                v.into_iter().map(Ok).collect()
            };
            this.w.record(this.actor, seq, CallKind::List, &prefix, d, true);
            futures::stream::iter(items).boxed()
        })
        .flatten()
        .boxed()
    }

    async fn list_with_delimiter(&self, prefix: Option<&Path>) -> OsResult<ListResult> {
        let prefix: String = prefix.map(|p| p.as_ref().to_string()).unwrap_or_default();
        let (seq, d) = pre!(self, CallKind::ListDelim, &prefix, 0);
        let res = {
            let g = self.w.lock();
            let pfx = if prefix.is_empty() { String::new() } else { format!("{}/", prefix) };
            let mut common: BTreeSet<String> = BTreeSet::new();
            let mut objects = Vec::new();
            for (k, o) in g.objects.iter() {
                if !k.starts_with(&pfx) {
                    continue;
                }
                let rest = &k[pfx.len()..];
                if let Some(i) = rest.find('/') {
                    common.insert(format!("{}{}", pfx, &rest[..i]));
                } else {
                    objects.push(World::meta(k, o));
                }
            }
            if !g.knobs.list_lexical {
                let salt = g.knobs.list_salt;
                objects.sort_by_key(|m| crate::rng::mix(&[salt, crate::rng::hash_str(m.location.as_ref())]));
            }
            Ok(ListResult {
                common_prefixes: common.into_iter().map(|p| Path::parse(&p).unwrap_or_else(|_| Path::from(p.as_str()))).collect(),
                objects,
            })
        };
        self.finish(seq, CallKind::ListDelim, &prefix, d, res)
    }

    async fn copy(&self, from: &Path, to: &Path) -> OsResult<()> {
        let (f, t) = (from.as_ref(), to.as_ref());
        let (seq, d) = pre!(self, CallKind::Copy, t, 0);
        let res = {
            let mut g = self.w.lock();
            match g.objects.get(f).map(|o| o.data.clone()) {
                None => Err(not_found(f)),
                Some(data) => {
                    World::store_obj(&mut g, self.actor, t, data);
                    Ok(())
                }
            }
        };
        self.finish(seq, CallKind::Copy, t, d, res)
    }

    async fn copy_if_not_exists(&self, from: &Path, to: &Path) -> OsResult<()> {
        let (f, t) = (from.as_ref(), to.as_ref());
        let (seq, d) = pre!(self, CallKind::CopyIfNotExists, t, 0);
        let res = {
            let mut g = self.w.lock();
            if g.objects.contains_key(t) {
                Err(already_exists(t))
            } else {
                match g.objects.get(f).map(|o| o.data.clone()) {
                    None => Err(not_found(f)),
                    Some(data) => {
                        World::store_obj(&mut g, self.actor, t, data);
                        Ok(())
                    }
                }
            }
        };
        if d == Decision::Dup {
            self.w.record(self.actor, seq, CallKind::CopyIfNotExists, t, d, false);
            return Err(already_exists(t));
        }
        self.finish(seq, CallKind::CopyIfNotExists, t, d, res)
    }
    // rename / rename_if_not_exists: object_store defaults (copy then delete): two gate steps
}

#[derive(Debug)]
struct SimUpload {
    store: ActorStore,
    id: u64,
    path: String,
}

#[async_trait]
impl MultipartUpload for SimUpload {
    fn put_part(&mut self, data: PutPayload) -> UploadPart {
        let store = self.store.clone();
        let id = self.id;
        let path = self.path.clone();
        let data = payload_bytes(data);
        // part number fixed at call time
        let part_no = {
            let mut g = store.w.lock();
            match g.uploads.get_mut(&id) {
                Some(u) => {
                    let n = u.next_part;
                    u.next_part += 1;
                    n
                }
                None => usize::MAX,
            }
        };
        async move {
            let (seq, d) = store.w.enter(store.actor, CallKind::MpPart, &path, data.len()).await;
            match d {
                Decision::FailPre | Decision::CrashPre | Decision::ConnReset => {
                    store.w.record(store.actor, seq, CallKind::MpPart, &path, d, false);
                    return Err(fault_error(d));
                }
                _ => {}
            }
            let res = {
                let mut g = store.w.lock();
                match g.uploads.get_mut(&id) {
                    Some(u) if !u.done => {
                        u.parts.insert(part_no, data);
                        Ok(())
                    }
                    _ => Err(generic_err("upload gone")),
                }
            };
            store.finish(seq, CallKind::MpPart, &path, d, res)
        }
        .boxed()
    }

    async fn complete(&mut self) -> OsResult<PutResult> {
        let store = self.store.clone();
        let path = self.path.clone();
        let (seq, d) = {
            let (seq, d) = store.w.enter(store.actor, CallKind::MpComplete, &path, 0).await;
            match d {
                Decision::FailPre | Decision::CrashPre | Decision::ConnReset => {
                    store.w.record(store.actor, seq, CallKind::MpComplete, &path, d, false);
                    return Err(fault_error(d));
                }
                _ => {}
            }
            (seq, d)
        };
        let res = {
            let mut g = store.w.lock();
            match g.uploads.remove(&self.id) {
                // like object_store's `Parts::finish`: every part number handed out by put_part
                // must have completed, otherwise the upload cannot be completed
                Some(u) if u.parts.len() != u.next_part && g.knobs.mp_validates_parts => Err(generic_err("Missing part")),
                Some(u) => {
                    let mut out = Vec::new();
                    for (_, b) in u.parts.iter() {
                        out.extend_from_slice(b);
                    }
                    let etag = World::store_obj(&mut g, store.actor, &u.path, Bytes::from(out));
                    Ok(PutResult {
                        e_tag: Some(etag.to_string()),
                        version: None,
                    })
                }
                None => Err(generic_err("upload gone")),
            }
        };
        store.finish(seq, CallKind::MpComplete, &path, d, res)
    }

    async fn abort(&mut self) -> OsResult<()> {
        let store = self.store.clone();
        let path = self.path.clone();
        let (seq, d) = store.w.enter(store.actor, CallKind::MpAbort, &path, 0).await;
        {
            let mut g = store.w.lock();
            g.uploads.remove(&self.id);
        }
        store.w.record(store.actor, seq, CallKind::MpAbort, &path, d, true);
        Ok(())
    }
}

impl World {
    pub fn open_uploads(&self) -> usize {
        self.lock().uploads.len()
    }
}

// ---------------------------------------------------------------------------
// lance object-store provider for the `sim://` scheme
// ---------------------------------------------------------------------------

#[derive(Clone, Debug)]
pub struct LanceKnobs {
    pub block_size: usize,
    pub io_parallelism: usize,
    pub download_retry_count: usize,
    pub list_is_lexically_ordered: bool,
}

impl Default for LanceKnobs {
    fn default() -> Self {
        Self {
            block_size: 4096,
            io_parallelism: 8,
            download_retry_count: 1,
            list_is_lexically_ordered: true,
        }
    }
}

pub struct SimProvider {
    pub w: Arc<World>,
    pub actor: ActorId,
    pub knobs: LanceKnobs,
}

impl std::fmt::Debug for SimProvider {
    fn fmt(&self, f: &mut std::fmt::Formatter<'_>) -> std::fmt::Result {
        write!(f, "SimProvider(actor={})", self.actor)
    }
}

#[async_trait]
impl lance_io::object_store::ObjectStoreProvider for SimProvider {
    async fn new_store(
        &self,
        base_path: url::Url,
        params: &lance_io::object_store::ObjectStoreParams,
    ) -> lance_core::Result<lance_io::object_store::ObjectStore> {
        let inner: Arc<dyn ObjectStore> = Arc::new(ActorStore {
            w: self.w.clone(),
            actor: self.actor,
        });
        Ok(lance_io::object_store::ObjectStore::new(
            inner,
            base_path,
            params.block_size.or(Some(self.knobs.block_size)),
            params.object_store_wrapper.clone(),
            false,
            self.knobs.list_is_lexically_ordered,
            self.knobs.io_parallelism,
            self.knobs.download_retry_count,
            params.storage_options.as_ref(),
        ))
    }
}

/// A party: own session (caches, registry) and own store handle.
pub struct Party {
    pub id: ActorId,
    pub w: Arc<World>,
    pub session: Arc<lance::session::Session>,
    pub registry: Arc<lance_io::object_store::ObjectStoreRegistry>,
    pub knobs: LanceKnobs,
}

impl Party {
    pub fn new(w: &Arc<World>, id: ActorId, knobs: LanceKnobs) -> Self {
        Self::with_caches(w, id, knobs, 64 << 20, 64 << 20)
    }
    pub fn with_caches(w: &Arc<World>, id: ActorId, knobs: LanceKnobs, index_cache: usize, meta_cache: usize) -> Self {
        let registry = Arc::new(lance_io::object_store::ObjectStoreRegistry::empty());
        registry.insert(
            "sim",
            Arc::new(SimProvider {
                w: w.clone(),
                actor: id,
                knobs: knobs.clone(),
            }),
        );
        let session = Arc::new(lance::session::Session::new(index_cache, meta_cache, registry.clone()));
        Self {
            id,
            w: w.clone(),
            session,
            registry,
            knobs,
        }
    }
    pub fn raw_store(&self) -> Arc<dyn ObjectStore> {
        Arc::new(ActorStore {
            w: self.w.clone(),
            actor: self.id,
        })
    }
    /// lance-io object store for a uri (used by protocol-level engines)
    pub fn lance_store(&self, uri: &str) -> lance_io::object_store::ObjectStore {
        lance_io::object_store::ObjectStore::new(
            self.raw_store(),
            url::Url::parse(uri).unwrap(),
            Some(self.knobs.block_size),
            None,
            false,
            self.knobs.list_is_lexically_ordered,
            self.knobs.io_parallelism,
            self.knobs.download_retry_count,
            None,
        )
    }
}

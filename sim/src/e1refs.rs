//! E1 `refs`: branches, tags and shallow clones as isolated references (C09).

use std::collections::BTreeMap;
use std::sync::Arc;

use lance::dataset::refs::{check_valid_branch, check_valid_tag};
use lance::Dataset;

use crate::e1::{diff_rows, err_class, guarded, panic_sig, sorted, Gen, Mix, Runner};
use crate::model::*;
use crate::runres::{RunCfg, RunResult};
use crate::table::*;
use crate::world::Party;

const BRANCH_NAMES: [&str; 10] = ["a", "ab", "a/b", "a/b/c", "b", "a-b", "a.b", "b/a", "abc", "a/bc"];
const TAG_NAMES: [&str; 5] = ["t1", "t2", "rel-1.0", "x_y", "a"];

/// Independent implementation of the documented branch-name grammar.
fn model_valid_branch(s: &str) -> bool {
    if s.is_empty() || s.starts_with('/') || s.ends_with('/') || s.contains("//") || s.contains("..") || s.contains('\\') {
        return false;
    }
    for seg in s.split('/') {
        if seg.is_empty() || !seg.chars().all(|c| c.is_alphanumeric() || c == '.' || c == '-' || c == '_') {
            return false;
        }
    }
    !(s.ends_with(".lock") || s == "main")
}

fn model_valid_tag(s: &str) -> bool {
    if s.is_empty() || !s.chars().all(|c| c.is_alphanumeric() || c == '.' || c == '-' || c == '_') {
        return false;
    }
    !(s.starts_with('.') || s.ends_with('.') || s.ends_with(".lock") || s.contains(".."))
}

#[derive(Clone)]
struct RefModel {
    /// version -> contents
    versions: BTreeMap<u64, TableState>,
}

impl RefModel {
    fn latest(&self) -> (u64, &TableState) {
        let (v, s) = self.versions.iter().next_back().unwrap();
        (*v, s)
    }
}

async fn scan_sorted(ds: &Dataset) -> Result<Vec<Row>, String> {
    scan_all(ds, false).await.map(|(_, r)| sorted(&r)).map_err(|e| e.to_string())
}

pub async fn run_refs(cfg: RunCfg) -> RunResult {
    let t0 = std::time::Instant::now();
    let mut r = match Runner::new(cfg.clone()).await {
        Ok(r) => r,
        Err(res) => return res,
    };
    r.gen.exact_indices = false;
    r.gen.inexact_indices = false;
    // ---- name grammar (input part of the property): a sample of strings per run ----
    {
        let alphabet = ['a', 'b', '/', '.', '-', '_', 'Z', '9', '\\', ' ', 'é'];
        for _ in 0..150 {
            let n = r.rng.range(0, 6) as usize;
            let mut s: String = (0..n).map(|_| *r.rng.pick(&alphabet)).collect();
            match r.rng.below(12) {
                0 => s = "main".into(),
                1 => s.push_str(".lock"),
                _ => {}
            }
            let (lb, mb) = (check_valid_branch(&s).is_ok(), model_valid_branch(&s));
            if lb != mb {
                r.res.violate("C09", "name-grammar", "branch-name-grammar", 0, format!("branch name {:?}: lance accepts={} documented grammar accepts={}", s, lb, mb));
            }
            let (lt, mt) = (check_valid_tag(&s).is_ok(), model_valid_tag(&s));
            if lt != mt {
                r.res.violate("C09", "name-grammar", "tag-name-grammar", 0, format!("tag name {:?}: lance accepts={} documented grammar accepts={}", s, lt, mt));
            }
        }
        r.res.subcases += 300;
    }
    let write_mix = Mix { append: 10, overwrite: 1, delete: 6, update: 5, merge: 3, merge_partial: 0, compact: 2, create_index: 0, optimize: 0, drop_index: 0, add_col: 0, drop_col: 0, rename_col: 0, config: 0, restore: 0 };
    // model: "" = main
    let mut refs: BTreeMap<String, RefModel> = BTreeMap::new();
    let mut main = RefModel { versions: BTreeMap::new() };
    main.versions.insert(r.ds.version().version, r.st.clone());
    refs.insert(String::new(), main);
    let mut tags: BTreeMap<String, (String, u64)> = BTreeMap::new();
    let mut clones: Vec<(String, RefModel)> = Vec::new();
    let mut clone_src: Vec<String> = Vec::new();
    let mut deleted_names: Vec<String> = Vec::new();
    let mut clone_counter = 0usize;
    // branch -> the branch it was created from ("" = main)
    let mut parent_of: BTreeMap<String, String> = BTreeMap::new();
    let mut orphaned: Vec<String> = Vec::new();
    // a small cluster of prefix-related names per run: that is where directory handling can go wrong
    let clusters: [&[&str]; 5] = [&["a", "ab", "a/b"], &["ab", "abc", "a"], &["a/b", "a/bc", "a/b/c"], &["b", "b/a", "ba"], &["a.b", "a-b", "a"]];
    let cluster: Vec<&str> = r.rng.pick(&clusters).to_vec();
    let nsteps = {
        let drawn = if cfg.thorough() { r.rng.range(10, 28) } else { r.rng.range(6, 14) } as u64;
        cfg.max_steps.map(|m| m.min(drawn)).unwrap_or(drawn)
    };
    for step in 0..nsteps {
        r.step = step;
        let choice = r.rng.below(100);
        let branch_names: Vec<String> = refs.keys().cloned().collect();
        let skip = cfg.skip.contains(&step);
        let dlog_start = r.w.lock().delete_log.len();
        // every generated operation draws the same random numbers whether skipped or not
        let pick_ref = r.rng.pick(&branch_names).clone();
        // prefix-related names are drawn more often: they are where directory handling can go wrong
        let new_branch = {
            let from_cluster = r.rng.pick(&cluster).to_string();
            let any = r.rng.pick(&BRANCH_NAMES).to_string();
            let existing: Vec<&String> = branch_names.iter().filter(|b| !b.is_empty()).collect();
            let ex = if existing.is_empty() { from_cluster.clone() } else { (*r.rng.pick(&existing)).clone() };
            let roll = r.rng.below(10);
            // deletions mostly target a branch that exists, creations mostly draw from the run's cluster
            if (60..70).contains(&choice) && roll < 8 {
                ex
            } else if roll < 8 {
                from_cluster
            } else {
                any
            }
        };
        let tag_name = r.rng.pick(&TAG_NAMES).to_string();
        let seed_v = r.rng.next_u64();
        let op_for_write = {
            let st = refs[&pick_ref].latest().1.clone();
            let vers: Vec<u64> = refs[&pick_ref].versions.keys().cloned().collect();
            let Runner { gen, rng, .. } = &mut r;
            gen.gen_op(rng, &st, &write_mix, &vers)
        };
        if skip {
            continue;
        }
        let what;
        let outcome = guarded(async {
            // fresh handle on main for reference operations
            let mut main_ds = match r.ctx.open().await {
                Ok(d) => d,
                Err(e) => return Err(format!("open main: {}", e)),
            };
            let desc;
            if choice < 30 {
                // write on a branch / main
                let (lv, st) = { let (v, s) = refs[&pick_ref].latest(); (v, s.clone()) };
                let mut ds = if pick_ref.is_empty() { main_ds.clone() } else { main_ds.checkout_branch(&pick_ref).await.map_err(|e| format!("checkout_branch {}: {}", pick_ref, e))? };
                desc = format!("write on {:?}@{}: {}", pick_ref, lv, op_for_write.brief());
                let mut post = st.clone();
                let mres = model_apply(&mut post, &op_for_write, &refs[&pick_ref].versions);
                let res = with_deadline(3600, "branch write", exec_op(&r.ctx, &mut ds, &st, &op_for_write)).await;
                match (res, mres) {
                    (Ok(()), Ok(())) => {
                        // the write itself (known index/predicate defects are tagged like in the other modes)
                        if let Ok(rows) = scan_sorted(&ds).await {
                            if rows != post.sorted_rows() {
                                return Err(format!("VIOLATION {} rows-mismatch:{} after {} on {:?}: {}", crate::e1::prop_for_op(&op_for_write), crate::e1::op_sig_kind(&op_for_write, &st), op_for_write.brief(), pick_ref, diff_rows(&post.rows, &rows)));
                            }
                        }
                        let nv = ds.version().version;
                        let m = refs.get_mut(&pick_ref).unwrap();
                        for v in (lv + 1)..nv {
                            m.versions.insert(v, st.clone());
                        }
                        m.versions.insert(nv, post);
                    }
                    (Err(_), Err(_)) => {}
                    (Ok(()), Err(w)) => return Err(format!("VIOLATION C12 should-fail:{} {}", op_for_write.kind(), w)),
                    (Err(e), Ok(())) => return Err(format!("VIOLATION C09 unexpected-error:branch-write:{} {} failed: {}", err_class(&e.to_string()), op_for_write.brief(), e)),
                }
            } else if choice < 60 {
                // create branch from (ref, version)
                let vers: Vec<u64> = refs[&pick_ref].versions.keys().cloned().collect();
                let v = vers[(seed_v % vers.len() as u64) as usize];
                desc = format!("create_branch({:?} from {:?}@{})", new_branch, pick_ref, v);
                let src: lance::dataset::refs::Ref = if pick_ref.is_empty() { v.into() } else { (pick_ref.as_str(), v).into() };
                // the source handle is checked out on the source branch
                let mut src_ds = if pick_ref.is_empty() { main_ds.clone() } else { main_ds.checkout_branch(&pick_ref).await.map_err(|e| format!("checkout_branch {}: {}", pick_ref, e))? };
                let res = src_ds.create_branch(&new_branch, src, None).await;
                let exists = refs.contains_key(&new_branch);
                match res {
                    Ok(bds) => {
                        if exists {
                            return Err(format!("VIOLATION C09 branch-recreated create_branch({}) succeeded although the branch exists", new_branch));
                        }
                        let st = refs[&pick_ref].versions[&v].clone();
                        let mut m = RefModel { versions: BTreeMap::new() };
                        m.versions.insert(bds.version().version, st);
                        refs.insert(new_branch.clone(), m);
                        parent_of.insert(new_branch.clone(), pick_ref.clone());
                    }
                    Err(e) => {
                        if !exists && deleted_names.contains(&new_branch) {
                            // the directory of an earlier branch of this name could not be removed because a
                            // nested branch lives below it; re-creating the name is refused. Not a violation.
                        } else if !exists {
                            return Err(format!("VIOLATION C09 unexpected-error:create-branch:{} create_branch({} from {:?}@{}) failed: {}", err_class(&e.to_string()), new_branch, pick_ref, v, e));
                        }
                    }
                }
            } else if choice < 70 {
                // delete a branch
                let mut desc = format!("delete_branch({:?})", new_branch);
                let exists = refs.contains_key(&new_branch);
                let res = main_ds.delete_branch(&new_branch).await;
                match (res, exists) {
                    (Ok(()), true) => {
                        refs.remove(&new_branch);
                        deleted_names.push(new_branch.clone());
                        parent_of.remove(&new_branch);
                        // branches created from the deleted one (transitively) read its files
                        let mut frontier = vec![new_branch.clone()];
                        while let Some(p) = frontier.pop() {
                            for (c, par) in parent_of.iter() {
                                if *par == p && !orphaned.contains(c) {
                                    orphaned.push(c.clone());
                                    frontier.push(c.clone());
                                }
                            }
                        }
                        // tags pointing into the deleted branch keep existing (dangling): only their
                        // recorded target is checked from now on, not the contents
                        // a shallow clone keeps referring to its source location: it dies with its source
                        let mut i = 0;
                        while i < clones.len() {
                            if clone_src[i] == new_branch {
                                clones.remove(i);
                                clone_src.remove(i);
                            } else {
                                i += 1;
                            }
                        }
                    }
                    (Ok(()), false) => return Err(format!("VIOLATION C09 delete-missing-branch delete_branch({}) succeeded but no such branch", new_branch)),
                    (Err(e), true) => {
                        // lance refuses to delete a branch other references depend on: acceptable, nothing changes
                        desc = format!("{} -> refused: {}", desc, e.to_string().chars().take(260).collect::<String>());
                    }
                    (Err(_), false) => {}
                }
                return Ok(desc);
            } else if choice < 78 {
                // cleanup of old versions on one reference (maintenance on one branch must not change others)
                let (lv, _) = { let (v, s) = refs[&pick_ref].latest(); (v, s.clone()) };
                let ds = if pick_ref.is_empty() { main_ds.clone() } else { main_ds.checkout_branch(&pick_ref).await.map_err(|e| format!("checkout_branch {}: {}", pick_ref, e))? };
                desc = format!("cleanup on {:?} (keep only v{} and tagged)", pick_ref, lv);
                let mut pol = lance::dataset::cleanup::CleanupPolicyBuilder::default().error_if_tagged_old_versions(false).build();
                pol.before_version = Some(lv);
                match ds.cleanup_with_policy(pol).await {
                    Ok(stats) => {
                        if stats.old_versions > 0 {
                            // A shallow clone keeps referring to its source location; the source's own cleanup
                            // does not know about it (the property protects the source from the clone, not the
                            // other way round): clones of this reference leave the model.
                            let mut i = 0;
                            while i < clones.len() {
                                if clone_src[i] == pick_ref {
                                    clones.remove(i);
                                    clone_src.remove(i);
                                } else {
                                    i += 1;
                                }
                            }
                            // the model forgets the removed versions of this reference (tagged ones stay)
                            let keep: Vec<u64> = tags.iter().filter(|(_, (b, _))| *b == pick_ref).map(|(_, (_, v))| *v).collect();
                            let remaining: Vec<u64> = match ds.versions().await {
                                Ok(v) => v.iter().map(|x| x.version).collect(),
                                Err(_) => vec![lv],
                            };
                            let m = refs.get_mut(&pick_ref).unwrap();
                            let had: Vec<u64> = m.versions.keys().cloned().collect();
                            for v in had {
                                if !remaining.contains(&v) {
                                    if keep.contains(&v) {
                                        return Err(format!("VIOLATION C08 removed-unselected-version:tagged cleanup on {:?} removed tagged version {}", pick_ref, v));
                                    }
                                    m.versions.remove(&v);
                                }
                            }
                        }
                    }
                    Err(e) => return Err(format!("VIOLATION C08 cleanup-error:{} cleanup on {:?} failed: {}", err_class(&e.to_string()), pick_ref, e)),
                }
            } else if choice < 90 {
                // tag create / update / delete
                let vers: Vec<u64> = refs[&pick_ref].versions.keys().cloned().collect();
                let v = vers[(seed_v % vers.len() as u64) as usize];
                let b = if pick_ref.is_empty() { None } else { Some(pick_ref.as_str()) };
                let exists = tags.contains_key(&tag_name);
                match seed_v % 3 {
                    0 => {
                        desc = format!("tag create {} -> {:?}@{}", tag_name, pick_ref, v);
                        let res = main_ds.tags().create_on_branch(&tag_name, v, b).await;
                        match (res, exists) {
                            (Ok(()), false) => {
                                tags.insert(tag_name.clone(), (pick_ref.clone(), v));
                            }
                            (Ok(()), true) => return Err(format!("VIOLATION C09 tag-recreated tag {} created twice", tag_name)),
                            (Err(e), false) => return Err(format!("VIOLATION C09 unexpected-error:tag-create:{} {}", err_class(&e.to_string()), e)),
                            (Err(_), true) => {}
                        }
                    }
                    1 => {
                        desc = format!("tag update {} -> {:?}@{}", tag_name, pick_ref, v);
                        let res = main_ds.tags().update_on_branch(&tag_name, v, b).await;
                        match (res, exists) {
                            (Ok(()), true) => {
                                tags.insert(tag_name.clone(), (pick_ref.clone(), v));
                            }
                            (Ok(()), false) => return Err(format!("VIOLATION C09 tag-update-missing update of missing tag {} succeeded", tag_name)),
                            (Err(e), true) => return Err(format!("VIOLATION C09 unexpected-error:tag-update:{} {}", err_class(&e.to_string()), e)),
                            (Err(_), false) => {}
                        }
                    }
                    _ => {
                        desc = format!("tag delete {}", tag_name);
                        let res = main_ds.tags().delete(&tag_name).await;
                        match (res, exists) {
                            (Ok(()), true) => {
                                tags.remove(&tag_name);
                            }
                            (Ok(()), false) => return Err(format!("VIOLATION C09 tag-delete-missing delete of missing tag {} succeeded", tag_name)),
                            (Err(e), true) => return Err(format!("VIOLATION C09 unexpected-error:tag-delete:{} {}", err_class(&e.to_string()), e)),
                            (Err(_), false) => {}
                        }
                    }
                }
            } else {
                // shallow clone of (ref, version) into a new location, then a write to the clone
                if clones.len() >= 2 {
                    desc = "noop".into();
                } else {
                    let vers: Vec<u64> = refs[&pick_ref].versions.keys().cloned().collect();
                    let v = vers[(seed_v % vers.len() as u64) as usize];
                    clone_counter += 1;
                    let uri = format!("sim://bucket/clone{}", clone_counter);
                    desc = format!("shallow_clone({} from {:?}@{})", uri, pick_ref, v);
                    let src: lance::dataset::refs::Ref = if pick_ref.is_empty() { v.into() } else { (pick_ref.as_str(), v).into() };
                    let mut src_ds = if pick_ref.is_empty() { main_ds.clone() } else { main_ds.checkout_branch(&pick_ref).await.map_err(|e| format!("checkout_branch {}: {}", pick_ref, e))? };
                    match src_ds.shallow_clone(&uri, src, None).await {
                        Ok(cds) => {
                            let st = refs[&pick_ref].versions[&v].clone();
                            let mut m = RefModel { versions: BTreeMap::new() };
                            m.versions.insert(cds.version().version, st.clone());
                            // one append to the clone
                            let mut c = cds.clone();
                            let rows = { let Runner { gen, rng, .. } = &mut r; gen.fresh_rows(rng, &st.cols, 3) };
                            let op = Op::Append { rows: rows.clone(), per_file: 10, batches: 1 };
                            let cctx = Ctx { uri: uri.clone(), ..r.ctx.clone() };
                            if exec_op(&cctx, &mut c, &st, &op).await.is_ok() {
                                let mut post = st.clone();
                                post.rows.extend(rows);
                                m.versions.insert(c.version().version, post);
                            }
                            clones.push((uri, m));
                            clone_src.push(pick_ref.clone());
                        }
                        Err(e) => return Err(format!("VIOLATION C09 unexpected-error:shallow-clone:{} {}", err_class(&e.to_string()), e)),
                    }
                }
            }
            Ok(desc)
        })
        .await;
        match outcome {
            Ok(Ok(d)) => {
                what = d;
            }
            Ok(Err(msg)) => {
                if let Some(rest) = msg.strip_prefix("VIOLATION ") {
                    let mut it = rest.splitn(3, ' ');
                    let (p, sig, detail) = (it.next().unwrap_or("C09"), it.next().unwrap_or("x"), it.next().unwrap_or(""));
                    r.res.violate(p, "refs-op", sig, step, detail.to_string());
                } else {
                    r.res.violate("C09", "refs-op", &format!("op-error:{}", err_class(&msg)), step, msg);
                }
                break;
            }
            Err(p) => {
                r.res.violate("C09", "panic", &format!("panic:{}", panic_sig(&p)), step, p);
                break;
            }
        }
        r.res.script.push(format!("{}: {}", step, what));
        r.res.kinds.push(what.split(|c: char| c == '(' || c == ' ').next().unwrap_or("op").to_string());
        // ---- delete log: a branch deletion removes only that branch's own storage ----
        if what.starts_with("delete_branch") {
            let deleted: Vec<String> = r.w.lock().delete_log[dlog_start..].iter().map(|(_, p)| p.clone()).collect();
            for p in deleted.iter() {
                if p.starts_with("tbl/_refs/branches/") {
                    continue;
                }
                if !p.starts_with("tbl/tree/") {
                    r.res.violate("C09", "delete-own-storage-only", "branch-delete-removed-main-object", step, format!("{} deleted {} which belongs to the main table", what, p));
                    break;
                }
                // owner = the live branch with the longest name whose directory contains the path;
                // objects without a live owner are leftovers of deleted / failed branches
                let own = p.starts_with(&format!("tbl/tree/{}/", new_branch));
                let owns = |o: &str, p: &str| {
                    // an object is the branch's own iff it sits in one of the branch's table
                    // directories; `tree/a/b/_transactions/x` is branch "a/b"'s, never branch "a"'s
                    ["_versions", "_transactions", "data", "_deletions", "_indices", "_refs"].iter().any(|d| p.starts_with(&format!("tbl/tree/{}/{}/", o, d)))
                };
                let owner = refs
                    .keys()
                    .filter(|o| !o.is_empty() && owns(o.as_str(), p.as_str()))
                    // inside the deleted branch's own directory only a nested live branch can own the object
                    .filter(|o| !own || o.len() > new_branch.len())
                    .max_by_key(|o| o.len());
                if let Some(o) = owner {
                    r.res.violate("C09", "delete-own-storage-only", "branch-delete-removed-foreign-object", step, format!("{} deleted {} which belongs to live branch {:?}", what, p, o));
                    break;
                }
            }
            if !deleted.is_empty() {
                r.res.probe("branch-deleted-with-files");
            }
        }
        // ---- every reference still reads what the model says ----
        // after operations that remove objects every version of every reference is re-read, so that
        // damage is found (and attributed) at the step that caused it
        let exhaustive = what.starts_with("cleanup") || what.starts_with("delete_branch");
        let chk = guarded(check_all_refs(&mut r, &refs, &tags, &clones, &what, &orphaned, exhaustive)).await;
        if let Err(p) = chk {
            r.res.violate("C09", "panic", &format!("panic-in-check:{}", panic_sig(&p)), step, p);
        }
        if !r.res.violations.is_empty() {
            break;
        }
    }
    r.step = nsteps;
    r.res.nontrivial = r.res.kinds.len() >= 3;
    r.res.interleaving_hash = crate::rng::mix(&r.res.kinds.iter().map(|k| crate::rng::hash_str(k)).collect::<Vec<_>>());
    let _ = Gen::new();
    let mut res = r.finish();
    res.wall_ms = t0.elapsed().as_millis() as u64;
    res
}

async fn check_all_refs(r: &mut Runner, refs: &BTreeMap<String, RefModel>, tags: &BTreeMap<String, (String, u64)>, clones: &[(String, RefModel)], after: &str, orphaned: &[String], exhaustive: bool) {
    let step = r.step;
    let party: Arc<Party> = r.fresh_party();
    let ctx = r.ctx.for_party(party);
    let main = match ctx.open().await {
        Ok(d) => d,
        Err(e) => {
            r.res.violate("C09", "isolation", "main-unreadable", step, format!("after {}: main cannot be opened: {}", after, e));
            return;
        }
    };
    let kind = after.split(|c: char| c == '(' || c == ' ').next().unwrap_or("op").to_string();
    for (name, model) in refs.iter() {
        // a branch whose ancestor branch was deleted: tagged, it is a listed finding
        let kind = if orphaned.contains(name) { format!("{}:descendant-of-deleted-branch", kind) } else { kind.clone() };
        let ds = if name.is_empty() {
            Ok(main.clone())
        } else {
            main.checkout_branch(name).await
        };
        let ds = match ds {
            Ok(d) => d,
            Err(e) => {
                let kind = if r.ctx.hk == crate::handlers::HandlerKind::External && name != "" { format!("{}:external-store", kind) } else { kind.clone() };
                r.res.violate("C09", "isolation", &format!("branch-unreadable-after:{}", kind), step, format!("after {}: branch {:?} cannot be opened: {}", after, name, e));
                continue;
            }
        };
        let (lv, st) = model.latest();
        if ds.version().version != lv {
            r.res.violate("C09", "isolation", &format!("branch-version-after:{}", kind), step, format!("after {}: branch {:?} is at version {} model {}", after, name, ds.version().version, lv));
            continue;
        }
        match scan_sorted(&ds).await {
            Ok(rows) => {
                if rows != st.sorted_rows() {
                    r.res.violate("C09", "isolation", &format!("branch-content-after:{}", kind), step, format!("after {}: branch {:?}@{}: {}", after, name, lv, diff_rows(&st.rows, &rows)));
                }
            }
            Err(e) => r.res.violate("C09", "isolation", &format!("branch-scan-error-after:{}", kind), step, format!("after {}: scan of branch {:?}@{} failed: {}", after, name, lv, e)),
        }
        // one older version of the reference
        if model.versions.len() > 1 {
            let vs: Vec<u64> = model.versions.keys().cloned().collect();
            let pick = vs[r.rng.usize(vs.len())];
            let todo: Vec<u64> = if exhaustive { vs.clone() } else { vec![pick] };
            for v in todo {
            let rf: lance::dataset::refs::Ref = if name.is_empty() { v.into() } else { (name.as_str(), v).into() };
            match main.checkout_version(rf).await {
                Ok(dv) => match scan_sorted(&dv).await {
                    Ok(rows) => {
                        if rows != model.versions[&v].sorted_rows() {
                            r.res.violate("C09", "isolation", &format!("old-version-content-after:{}", kind), step, format!("after {}: {:?}@{}: {}", after, name, v, diff_rows(&model.versions[&v].rows, &rows)));
                        }
                    }
                    Err(e) => r.res.violate("C09", "isolation", &format!("old-version-scan-error-after:{}", kind), step, format!("after {}: scan of {:?}@{} failed: {}", after, name, v, e)),
                },
                Err(e) => r.res.violate("C09", "isolation", &format!("old-version-unreadable-after:{}", kind), step, format!("after {}: {:?}@{} cannot be opened: {}", after, name, v, e)),
            }
            }
        }
    }
    for (tag, (b, v)) in tags.iter() {
        match main.tags().get(tag).await {
            Ok(tc) => {
                let tb = tc.branch.clone().unwrap_or_default();
                if tb != *b || tc.version != *v {
                    r.res.violate("C09", "tag-target", "tag-target-changed", step, format!("after {}: tag {} resolves to ({:?}, {}) but was set to ({:?}, {})", after, tag, tb, tc.version, b, v));
                }
            }
            Err(e) => {
                r.res.violate("C09", "tag-target", "tag-unreadable", step, format!("after {}: tag {} cannot be read: {}", after, tag, e));
                continue;
            }
        }
        if let Some(model) = refs.get(b) {
            if let Some(st) = model.versions.get(v) {
                match main.checkout_version(tag.as_str()).await {
                    Ok(d) => match scan_sorted(&d).await {
                        Ok(rows) => {
                            if rows != st.sorted_rows() {
                                r.res.violate("C09", "tag-target", &format!("tag-content-after:{}", kind), step, format!("after {}: tag {} -> ({:?}, {}): {}", after, tag, b, v, diff_rows(&st.rows, &rows)));
                            }
                        }
                        Err(e) => r.res.violate("C09", "tag-target", &format!("tag-scan-error-after:{}", kind), step, format!("after {}: scan through tag {} failed: {}", after, tag, e)),
                    },
                    Err(e) => r.res.violate("C09", "tag-target", &format!("tag-checkout-error-after:{}", kind), step, format!("after {}: checkout of tag {} failed: {}", after, tag, e)),
                }
            }
        }
    }
    for (uri, model) in clones.iter() {
        let cctx = Ctx { uri: uri.clone(), ..ctx.clone() };
        match cctx.open().await {
            Ok(d) => {
                let (lv, st) = model.latest();
                if d.version().version != lv {
                    r.res.violate("C09", "isolation", &format!("clone-version-after:{}", kind), step, format!("after {}: clone {} at version {} model {}", after, uri, d.version().version, lv));
                    continue;
                }
                match scan_sorted(&d).await {
                    Ok(rows) => {
                        if rows != st.sorted_rows() {
                            r.res.violate("C09", "isolation", &format!("clone-content-after:{}", kind), step, format!("after {}: clone {}: {}", after, uri, diff_rows(&st.rows, &rows)));
                        }
                    }
                    Err(e) => r.res.violate("C09", "isolation", &format!("clone-scan-error-after:{}", kind), step, format!("after {}: scan of clone {} failed: {}", after, uri, e)),
                }
            }
            Err(e) => r.res.violate("C09", "isolation", &format!("clone-unreadable-after:{}", kind), step, format!("after {}: clone {} cannot be opened: {}", after, uri, e)),
        }
    }
}

//! Logical-row lineage kept next to the model: which image belongs to which logical row,
//! when a logical row was created / last updated, and which stable row id it carries.
//! Used by the row-id (C07, C18), version-column (C17) and random-access (C15) oracles.

use std::collections::{BTreeMap, BTreeSet};

use crate::model::*;
use crate::table::Op;

#[derive(Default, Clone)]
pub struct Lineage {
    /// image id -> logical row identity
    pub ident: BTreeMap<i64, i64>,
    /// identity -> version that first inserted it
    pub created: BTreeMap<i64, u64>,
    /// identity -> last version that changed it
    pub updated: BTreeMap<i64, u64>,
    /// stable row id -> identity it was first seen with (over the whole history)
    pub rowid_owner: BTreeMap<u64, i64>,
    /// identity -> row id (while alive)
    pub ident_rowid: BTreeMap<i64, u64>,
    /// the history contained a restore / overwrite (version columns of old rows not modelled)
    pub exact_versions: bool,
}

fn img_of(st: &TableState, r: &Row) -> Option<i64> {
    st.col("img").and_then(|i| r[i].as_i64())
}
fn k_of(st: &TableState, r: &Row) -> Option<i64> {
    st.col("k").and_then(|i| r[i].as_i64())
}

impl Lineage {
    pub fn new() -> Self {
        Self { exact_versions: true, ..Default::default() }
    }

    pub fn init(&mut self, st: &TableState, version: u64) {
        for r in st.rows.iter() {
            if let Some(img) = img_of(st, r) {
                self.ident.insert(img, img);
                self.created.insert(img, version);
                self.updated.insert(img, version);
            }
        }
    }

    /// Record the effect of a committed operation (pre -> post model state) at `version`.
    pub fn apply(&mut self, op: &Op, pre: &TableState, post: &TableState, version: u64) {
        match op {
            Op::Restore { .. } => {
                self.exact_versions = false;
                return;
            }
            Op::Overwrite { .. } => {
                // every row is new
                for r in post.rows.iter() {
                    if let Some(img) = img_of(post, r) {
                        self.ident.insert(img, img);
                        self.created.insert(img, version);
                        self.updated.insert(img, version);
                    }
                }
                return;
            }
            _ => {}
        }
        let pre_imgs: BTreeSet<i64> = pre.rows.iter().filter_map(|r| img_of(pre, r)).collect();
        let post_imgs: BTreeSet<i64> = post.rows.iter().filter_map(|r| img_of(post, r)).collect();
        // keys of rows whose image disappeared (candidates for "replaced by merge")
        let mut gone_by_key: BTreeMap<i64, Vec<i64>> = BTreeMap::new();
        for r in pre.rows.iter() {
            if let (Some(img), Some(k)) = (img_of(pre, r), k_of(pre, r)) {
                if !post_imgs.contains(&img) {
                    gone_by_key.entry(k).or_default().push(img);
                }
            }
        }
        let delta = match op {
            Op::Update { sets, .. } => sets.iter().find_map(|(c, e)| match (c.as_str(), e) {
                ("img", SetExpr::AddI(_, d)) => Some(*d),
                _ => None,
            }),
            _ => None,
        };
        for r in post.rows.iter() {
            let img = match img_of(post, r) {
                Some(i) => i,
                None => continue,
            };
            if pre_imgs.contains(&img) {
                continue;
            }
            // a new image: find its predecessor
            let pred: Option<i64> = match op {
                Op::Update { .. } => delta.map(|d| img - d).filter(|p| pre_imgs.contains(p)),
                Op::Merge { .. } => k_of(post, r).and_then(|k| gone_by_key.get(&k)).and_then(|v| if v.len() == 1 { Some(v[0]) } else { None }),
                _ => None,
            };
            match pred.and_then(|p| self.ident.get(&p).cloned()) {
                Some(id) => {
                    self.ident.insert(img, id);
                    self.updated.insert(id, version);
                }
                None => {
                    self.ident.insert(img, img);
                    self.created.insert(img, version);
                    self.updated.insert(img, version);
                }
            }
        }
    }
}

//! E3: the I/O scheduler (C30) and the object writer (C31) over the simulated store.

use std::ops::Range;
use std::sync::{Arc, Mutex};

use bytes::Bytes;
use lance_core::utils::address::RowAddress;
use lance_io::object_writer::ObjectWriter;
use lance_io::scheduler::{ScanScheduler, SchedulerConfig};
use lance_io::utils::CachedFileSize;
use object_store::path::Path;
use tokio::io::AsyncWriteExt;

use crate::driver::{drive, SchedCfg};
use crate::e1::{err_class, guarded, panic_sig};
use crate::rng::Rng;
use crate::runres::{RunCfg, RunResult};
use crate::world::{CallKind, Decision, LanceKnobs, Party, World};

const URI: &str = "sim://bucket/io";
const FILE: &str = "io/f.bin";

pub async fn run(cfg: RunCfg) -> RunResult {
    let _ = RowAddress::new_from_parts(0, 0);
    match cfg.opt("mode").unwrap_or("io") {
        "io" => run_io(cfg).await,
        "writer" => run_writer(cfg).await,
        other => RunResult::harness_error(&cfg, format!("unknown e3 mode {}", other)),
    }
}

fn file_bytes(n: usize, seed: u64) -> Bytes {
    let mut r = Rng::new(seed);
    let mut v = Vec::with_capacity(n);
    while v.len() < n {
        let x = r.next_u64();
        v.extend_from_slice(&x.to_le_bytes());
    }
    v.truncate(n);
    Bytes::from(v)
}

/// Sorted range list with empty / overlapping / contained / adjacent / far-apart ranges.
fn gen_ranges(rng: &mut Rng, size: u64, allow_empty: bool, allow_overlap: bool) -> Vec<Range<u64>> {
    let n = rng.range(1, 6) as usize;
    let mut out: Vec<Range<u64>> = Vec::new();
    let mut pos = rng.below(size.max(1));
    for _ in 0..n {
        if pos >= size {
            break;
        }
        let len = match rng.below(6) {
            0 if allow_empty => 0,
            1 => 1,
            2 => rng.range(1, 16) as u64,
            3 => rng.range(16, 600) as u64,
            _ => rng.range(1, 5000) as u64,
        };
        let end = (pos + len).min(size);
        out.push(pos..end);
        // next start: adjacent, small gap, far, or (if allowed) overlapping / contained
        pos = match rng.below(6) {
            0 => end,
            1 => end + rng.below(8),
            2 => end + rng.below(700),
            3 if allow_overlap && end > pos => pos + rng.below(end - pos),
            4 if allow_overlap => pos,
            _ => end + rng.below(size / 2 + 1),
        };
    }
    // the callers' precondition: sorted by start
    out.sort_by_key(|r| (r.start, r.end));
    out
}

#[derive(Clone, Debug)]
struct ReqResult {
    client: usize,
    ranges: Vec<Range<u64>>,
    result: Result<Vec<Bytes>, String>,
}

pub async fn run_io(cfg: RunCfg) -> RunResult {
    let t0 = std::time::Instant::now();
    let mut res = RunResult::new(&cfg);
    let mut rng = Rng::new(cfg.seed);
    let w = World::new();
    let size = *rng.pick(&[1u64, 100, 5_000, 40_000, 200_000]) + rng.below(50);
    let data = file_bytes(size as usize, cfg.seed ^ 0xf11e);
    w.put_raw(FILE, data.clone());
    let allow_empty = cfg.opt_bool("empty").unwrap_or(true);
    let allow_overlap = cfg.opt_bool("overlap").unwrap_or(true);
    let faults_on = cfg.opt_bool("faults").unwrap_or(false);
    let drop_test = cfg.opt_bool("drop").unwrap_or(false);
    let knobs = LanceKnobs {
        block_size: *rng.pick(&[8usize, 64, 512, 4096]),
        io_parallelism: *rng.pick(&[1usize, 2, 3, 8]),
        download_retry_count: rng.range(0, 3) as usize,
        list_is_lexically_ordered: true,
    };
    let io_buffer = *rng.pick(&[64u64, 1_000, 20_000, 1 << 28]);
    // read once per process (LazyLock) when the first store is built: each run is its own process
    let max_iop = *rng.pick(&[16u64, 100, 4096, 16 << 20]);
    std::env::set_var("LANCE_MAX_IOP_SIZE", max_iop.to_string());
    res.knobs.insert("file_size".into(), size.to_string());
    res.knobs.insert("store".into(), format!("{:?}", knobs));
    res.knobs.insert("io_buffer_size_bytes".into(), io_buffer.to_string());
    res.knobs.insert("max_iop_size".into(), std::env::var("LANCE_MAX_IOP_SIZE").unwrap_or_default());
    let party = Arc::new(Party::new(&w, 1, knobs.clone()));
    let store = Arc::new(party.lance_store(URI));
    let sched = ScanScheduler::new(store.clone(), SchedulerConfig { io_buffer_size_bytes: io_buffer });
    let path = Path::from(FILE);
    let nclients = if cfg.thorough() { rng.range(2, 6) } else { rng.range(1, 4) } as usize;
    let results: Arc<Mutex<Vec<ReqResult>>> = Arc::new(Mutex::new(Vec::new()));
    // open the file schedulers in direct mode (metadata call), then gate the reads
    let mut files = Vec::new();
    for c in 0..nclients {
        match sched.open_file_with_priority(&path, c as u64, &CachedFileSize::new(size)).await {
            Ok(f) => files.push(f),
            Err(e) => return RunResult::harness_error(&cfg, format!("open_file failed: {}", e)),
        }
    }
    w.set_gated(true);
    let mut tasks = Vec::new();
    let mut script = Vec::new();
    for (c, f) in files.into_iter().enumerate() {
        let nreq = if cfg.thorough() { rng.range(2, 8) } else { rng.range(1, 4) } as usize;
        let mut reqs = Vec::new();
        for _ in 0..nreq {
            let ranges = gen_ranges(&mut rng, size, allow_empty, allow_overlap);
            let prio = rng.below(1000);
            reqs.push((ranges, prio));
        }
        // hold: keep earlier responses alive (unconsumed) while later ones are submitted
        let hold = rng.chance(0.5);
        let concurrent = rng.chance(0.5);
        script.push(format!("client {}: hold={} concurrent={} reqs={:?}", c, hold, concurrent, reqs));
        let results = results.clone();
        tasks.push(tokio::spawn(async move {
            let mut held: Vec<Vec<Bytes>> = Vec::new();
            if concurrent {
                let futs: Vec<_> = reqs.iter().map(|(r, p)| f.submit_request(r.clone(), *p)).collect();
                let outs = futures::future::join_all(futs).await;
                for ((ranges, _), out) in reqs.iter().zip(outs) {
                    results.lock().unwrap().push(ReqResult { client: c, ranges: ranges.clone(), result: out.map_err(|e| e.to_string()) });
                }
            } else {
                // ascending priority numbers are submitted while earlier results are still held:
                // sort so that held data never blocks a lower-priority-number request forever
                let mut reqs = reqs;
                if hold {
                    reqs.sort_by_key(|(_, p)| std::cmp::Reverse(*p));
                }
                for (ranges, p) in reqs.iter() {
                    let out = f.submit_request(ranges.clone(), *p).await;
                    if hold {
                        if let Ok(v) = &out {
                            held.push(v.clone());
                        }
                    }
                    results.lock().unwrap().push(ReqResult { client: c, ranges: ranges.clone(), result: out.map_err(|e| e.to_string()) });
                }
            }
            drop(held);
            drop(f);
        }));
    }
    res.script = script;
    let actors = vec![1u32];
    let mut sc = SchedCfg { p_reorder: 0.6, p_stick: 0.0, t_live_ms: 600_000, ..Default::default() };
    if faults_on {
        sc.fault_budget = rng.range(1, 3) as u32;
        sc.p_fault = 0.1;
        sc.faults = vec![Decision::FailPre];
    }
    if drop_test {
        // let a few reads complete, then drop the scheduler while reads are parked
        sc.max_decisions = rng.range(0, 3) as u64;
    }
    // The driver only sees one actor; wrap the client tasks in a single join handle
    let mut all = vec![tokio::spawn(async move {
        for t in tasks {
            let _ = t.await;
        }
    })];
    let out = if drop_test {
        let o = drive_limited(&w, &mut rng, &sc, &actors, &mut all, sc.max_decisions).await;
        drop(sched);
        // everything still parked now completes; pending requests must resolve (ok or error)
        let sc2 = SchedCfg { p_reorder: 0.6, p_stick: 0.0, t_live_ms: 600_000, ..Default::default() };
        let o2 = drive(&w, &mut rng, &sc2, &actors, &mut all, cfg.trace).await;
        res.probe("scheduler-dropped");
        crate::driver::SchedOut { decisions: o + o2.decisions, ..o2 }
    } else {
        let o = drive(&w, &mut rng, &sc, &actors, &mut all, cfg.trace).await;
        drop(sched);
        o
    };
    w.set_gated(false);
    res.interleaving_hash = crate::rng::mix(&[out.hash, size, io_buffer, knobs.block_size as u64, knobs.io_parallelism as u64]);
    res.steps = out.decisions;
    res.trace = out.trace.clone();
    let tag = format!("par{}", if knobs.io_parallelism == 1 { "=1" } else { ">1" });
    if out.stuck {
        res.violate("C30", "completes", &format!("io-stuck:{}{}", tag, if drop_test { ":after-drop" } else { "" }), 0, format!("requests never completed although every storage read was answered (io_parallelism={}, io_buffer={}, block={})", knobs.io_parallelism, io_buffer, knobs.block_size));
    }
    let results = results.lock().unwrap().clone();
    let mut nontrivial = false;
    for r in results.iter() {
        match &r.result {
            Ok(bufs) => {
                res.probe("request-ok");
                let has_empty = r.ranges.iter().any(|x| x.start == x.end);
                let overlapping = r.ranges.windows(2).any(|w| w[1].start < w[0].end);
                let class = format!("{}{}", if has_empty { ":empty-range" } else { "" }, if overlapping { ":overlapping" } else { "" });
                if r.ranges.len() > 1 {
                    nontrivial = true;
                }
                if bufs.len() != r.ranges.len() {
                    res.violate("C30", "one-buffer-per-range", &format!("buffer-count{}", class), 0, format!("request {:?} returned {} buffers", r.ranges, bufs.len()));
                    continue;
                }
                for (rg, b) in r.ranges.iter().zip(bufs.iter()) {
                    let exp = data.slice(rg.start as usize..rg.end as usize);
                    if *b != exp {
                        res.violate("C30", "bytes-equal", &format!("wrong-bytes{}", class), 0, format!("request {:?}: range {:?} returned {} bytes, expected {} (content differs)", r.ranges, rg, b.len(), exp.len()));
                        break;
                    }
                }
            }
            Err(e) => {
                res.probe("request-err");
                if !faults_on && !drop_test {
                    res.violate("C30", "no-spurious-error", &format!("request-error:{}", err_class(e)), 0, format!("request {:?} failed without injected faults: {}", r.ranges, e));
                }
            }
        }
    }
    res.nontrivial = nontrivial || out.overlapped;
    {
        let g = w.lock();
        res.calls = g.stats.calls;
        res.faults = g.stats.faults.clone();
        if g.stats.calls_by_kind.get("get").copied().unwrap_or(0) > 0 {
            drop(g);
            res.probe("reads-issued");
        }
    }
    res.kinds = vec![format!("clients{}", nclients)];
    res.wall_ms = t0.elapsed().as_millis() as u64;
    res
}

/// Drive at most `n` decisions (used to stop in the middle of outstanding I/O).
async fn drive_limited(w: &Arc<World>, rng: &mut Rng, _sc: &SchedCfg, _actors: &[u32], _tasks: &mut [tokio::task::JoinHandle<()>], n: u64) -> u64 {
    let mut done = 0;
    while done < n {
        tokio::time::sleep(std::time::Duration::from_millis(1)).await;
        let parked = w.parked();
        if parked.is_empty() {
            break;
        }
        let p = &parked[rng.usize(parked.len())];
        w.release(p.id, Decision::Proceed);
        done += 1;
    }
    tokio::time::sleep(std::time::Duration::from_millis(1)).await;
    done
}

// ---------------------------------------------------------------------------
// C31 object writer
// ---------------------------------------------------------------------------

pub async fn run_writer(cfg: RunCfg) -> RunResult {
    let t0 = std::time::Instant::now();
    let mut res = RunResult::new(&cfg);
    let mut rng = Rng::new(cfg.seed);
    let w = World::new();
    let faults_on = cfg.opt_bool("faults").unwrap_or(false);
    let knobs = LanceKnobs::default();
    let party = Arc::new(Party::new(&w, 1, knobs.clone()));
    let reader_party = Arc::new(Party::new(&w, 2, knobs.clone()));
    {
        // half of the runs use a store whose multipart complete does not validate the part list
        let lenient = rng.chance(0.5);
        w.lock().knobs.mp_validates_parts = !lenient;
        res.knobs.insert("multipart_complete_validates_parts".into(), (!lenient).to_string());
    }
    let store = party.lance_store(URI);
    let dest = "io/out.bin";
    // chunk plan: total 0 .. ~17 MiB (multipart threshold is 5 MiB, 10 parts in flight)
    // with faults the interesting case is several part uploads in flight: bias to multipart sizes
    let size_class = if faults_on && rng.chance(0.5) { 5 + rng.below(3) } else { rng.below(8) };
    let total_target: usize = match size_class {
        0 => 0,
        1 => rng.range(1, 100) as usize,
        2 => rng.range(1000, 100_000) as usize,
        3 => 5 * 1024 * 1024 - rng.range(0, 2) as usize,
        4 => 5 * 1024 * 1024 + rng.range(0, 2) as usize,
        5 => rng.range(5 << 20, 11 << 20) as usize,
        _ => rng.range(11 << 20, 17 << 20) as usize,
    };
    let mut chunks: Vec<usize> = Vec::new();
    let mut left = total_target;
    while left > 0 {
        let c = match rng.below(5) {
            0 => 1,
            1 => rng.range(1, 4096) as usize,
            2 => rng.range(4096, 1 << 20) as usize,
            _ => rng.range(1 << 20, 6 << 20) as usize,
        }
        .min(left);
        chunks.push(c);
        left -= c;
    }
    if rng.chance(0.2) {
        chunks.insert(rng.usize(chunks.len() + 1), 0);
    }
    let outcome_kind = if faults_on { rng.below(4) } else { rng.below(8).min(1) }; // 0 = shutdown, 1 = shutdown, 2 = abort, 3 = drop
    res.knobs.insert("total_bytes".into(), total_target.to_string());
    res.knobs.insert("chunks".into(), chunks.len().to_string());
    res.script.push(format!("write {} bytes in {} chunks, then {}", total_target, chunks.len(), match outcome_kind { 2 => "abort", 3 => "drop", _ => "shutdown" }));
    let expected: Arc<Mutex<Vec<u8>>> = Arc::new(Mutex::new(Vec::with_capacity(total_target)));
    let exp2 = expected.clone();
    let seed = cfg.seed;
    let chunks2 = chunks.clone();
    let path = Path::from(dest);
    w.set_gated(true);
    // the writer party
    let writer = tokio::spawn(async move {
        let r = guarded(async {
            let mut wr = ObjectWriter::new(&store, &path).await.map_err(|e| format!("new: {}", e))?;
            let mut g = Rng::new(seed ^ 0xabcdef);
            for c in chunks2.iter() {
                let mut buf = vec![0u8; *c];
                // cheap deterministic content
                let mut x = g.next_u64();
                for (i, b) in buf.iter_mut().enumerate() {
                    if i % 8 == 0 {
                        x = x.wrapping_mul(6364136223846793005).wrapping_add(1442695040888963407);
                    }
                    *b = (x >> ((i % 8) * 8)) as u8;
                }
                exp2.lock().unwrap().extend_from_slice(&buf);
                wr.write_all(&buf).await.map_err(|e| format!("write: {}", e))?;
            }
            match outcome_kind {
                2 => {
                    wr.abort().await;
                    Ok::<Option<usize>, String>(None)
                }
                3 => {
                    drop(wr);
                    Ok(None)
                }
                _ => {
                    let r = wr.shutdown().await.map_err(|e| format!("shutdown: {}", e))?;
                    Ok(Some(r.size))
                }
            }
        })
        .await;
        match r {
            Ok(x) => x,
            Err(p) => Err(format!("PANIC {}", p)),
        }
    });
    // a concurrent observer: the destination must never be visible before shutdown returns.
    // Evaluated by the driver after every decision through the world directly.
    let mut tasks = vec![writer];
    let actors = vec![1u32];
    let mut sc = SchedCfg { p_reorder: 0.7, p_stick: 0.0, ..Default::default() };
    if faults_on {
        sc.fault_budget = rng.range(1, 3) as u32;
        sc.p_fault = *rng.pick(&[0.1f64, 0.3, 0.6]);
        sc.faults = vec![Decision::FailPre, Decision::FailPre, Decision::ConnReset];
        if !w.lock().knobs.mp_validates_parts {
            // stores that assemble whatever arrived (in-memory, local file) have no connection to
            // reset; a retried part would be appended out of order there. Plain errors only.
            sc.faults = vec![Decision::FailPre];
        }
    }
    // custom drive loop with the visibility invariant
    let p_burst = *rng.pick(&[0.0f64, 0.3, 0.7]);
    let mut decisions = 0u64;
    let mut h = 0u64;
    let mut budget = sc.fault_budget;
    let mut idle = 0u64;
    let mut completed_seen = false;
    let mut visible_before_complete = false;
    loop {
        tokio::time::sleep(std::time::Duration::from_millis(1)).await;
        let parked = w.parked();
        if parked.is_empty() {
            if tasks[0].is_finished() {
                break;
            }
            tokio::time::sleep(std::time::Duration::from_millis(49)).await;
            idle += 50;
            if idle > 3_600_000 {
                res.violate("C31", "completes", "writer-stuck", 0, "writer made no progress".into());
                tasks[0].abort();
                break;
            }
            continue;
        }
        idle = 0;
        // several responses may arrive before the writer is polled again
        let burst = if rng.chance(p_burst) { rng.range(1, 4) as usize } else { 0 };
        let mut released: Vec<u64> = Vec::new();
        for _ in 0..=burst {
        let avail: Vec<&crate::world::ParkedInfo> = parked.iter().filter(|p| !released.contains(&p.id)).collect();
        if avail.is_empty() {
            break;
        }
        let p = if rng.chance(sc.p_reorder) { avail[rng.usize(avail.len())] } else { avail[0] };
        released.push(p.id);
        let mut d = Decision::Proceed;
        if budget > 0 && rng.chance(sc.p_fault) {
            let cand = *rng.pick(&sc.faults);
            let ok = match cand {
                Decision::ConnReset => matches!(p.kind, CallKind::MpPart | CallKind::Put),
                _ => true,
            };
            if ok {
                d = cand;
                budget -= 1;
            }
        }
        if matches!(p.kind, CallKind::MpComplete | CallKind::Put) && d == Decision::Proceed {
            completed_seen = true;
        }
        h = crate::rng::mix(&[h, p.kind as u64, d as u64]);
        w.release(p.id, d);
        decisions += 1;
        }
        tokio::time::sleep(std::time::Duration::from_millis(1)).await;
        // invariant: nothing at the destination before the final put / multipart complete was released
        if !completed_seen && w.exists(dest) {
            visible_before_complete = true;
        }
    }
    let _ = actors;
    w.set_gated(false);
    if visible_before_complete {
        res.violate("C31", "invisible-before-shutdown", "visible-early", 0, "object visible at destination before the completing call".into());
    }
    let result = match (&mut tasks[0]).await {
        Ok(r) => r,
        Err(_) => Err("aborted".into()),
    };
    let expected = expected.lock().unwrap().clone();
    let on_disk = {
        let store = reader_party.raw_store();
        match store.get(&Path::from(dest)).await {
            Ok(r) => r.bytes().await.ok(),
            Err(_) => None,
        }
    };
    match (&result, outcome_kind) {
        (Ok(Some(sz)), _) => {
            res.probe("shutdown-ok");
            if *sz != expected.len() {
                res.violate("C31", "size", "write-result-size", 0, format!("WriteResult.size={} written={}", sz, expected.len()));
            }
            match &on_disk {
                Some(b) if b.as_ref() == expected.as_slice() => {}
                Some(b) => res.violate("C31", "bytes-equal", "object-bytes-differ", 0, format!("object has {} bytes, written {} (content differs: first diff at {:?})", b.len(), expected.len(), b.iter().zip(expected.iter()).position(|(a, c)| a != c))),
                None => res.violate("C31", "bytes-equal", "object-missing-after-shutdown", 0, "shutdown returned Ok but no object exists".into()),
            }
            if total_target > 5 * 1024 * 1024 {
                res.probe("multipart");
            }
        }
        (Ok(None), _) => {
            res.probe(if outcome_kind == 2 { "aborted" } else { "dropped" });
            if on_disk.is_some() {
                res.violate("C31", "nothing-after-abort", if outcome_kind == 2 { "object-after-abort" } else { "object-after-drop" }, 0, "an object exists at the destination after abort/drop".into());
            }
        }
        (Err(e), _) if e.starts_with("PANIC") => {
            res.violate("C31", "panic", &format!("panic:{}", panic_sig(e)), 0, e.clone());
        }
        (Err(e), _) => {
            res.probe("write-failed");
            if !faults_on {
                res.violate("C31", "no-spurious-error", &format!("write-error:{}", err_class(e)), 0, format!("write failed without faults: {}", e));
            }
            // a failed write leaves no object behind
            if let Some(b) = &on_disk {
                if e.starts_with("shutdown") && b.as_ref() == expected.as_slice() {
                    // the completing call took effect but a later step reported failure: complete object is acceptable
                    res.probe("failed-but-complete-object");
                } else {
                    res.violate("C31", "nothing-after-failure", "object-after-failed-write", 0, format!("write failed ({}) but an object of {} bytes exists", e, b.len()));
                }
            }
        }
    }
    if w.open_uploads() > 0 && !matches!(result, Ok(Some(_))) {
        res.probe("upload-left-open");
        if outcome_kind == 2 {
            res.violate("C31", "abort-aborts-upload", "multipart-not-aborted", 0, format!("{} multipart uploads still open after abort", w.open_uploads()));
        }
    }
    res.nontrivial = decisions > 1;
    res.interleaving_hash = crate::rng::mix(&[h, total_target as u64, chunks.len() as u64]);
    res.steps = decisions;
    {
        let g = w.lock();
        res.calls = g.stats.calls;
        res.faults = g.stats.faults.clone();
    }
    res.kinds = vec![format!("outcome{}", outcome_kind)];
    res.wall_ms = t0.elapsed().as_millis() as u64;
    res
}

//! More per-step oracles for the sequential table engine: row ids (C07/C18), version
//! columns and deltas (C17), random access (C15), scanner knobs (C16), feature flags (C37).

use std::collections::{BTreeMap, BTreeSet};

use futures::TryStreamExt;

use crate::e1::{diff_rows, err_class, sorted, Runner};
use crate::model::*;
use crate::table::*;

fn col_idx(names: &[String], n: &str) -> Option<usize> {
    names.iter().position(|x| x == n)
}

impl Runner {
    /// Stable row ids: unique, stable per logical row, never re-issued, resolvable.
    /// Row-identity bookkeeping on an older version (versions created inside a concurrent round
    /// are otherwise never looked at, so identities handed out there would be unknown).
    pub async fn o_rowids_version(&mut self, v: u64, what: &str) {
        if !self.ctx.stable_row_ids || v >= self.ds.version().version {
            return;
        }
        if let Ok(old) = self.ds.checkout_version(v).await {
            let cur = std::mem::replace(&mut self.ds, old);
            self.o_rowids(what).await;
            self.ds = cur;
        }
    }

    pub async fn o_rowids(&mut self, last_op: &str) {
        if !self.ctx.stable_row_ids {
            return;
        }
        if !self.ds.manifest().uses_stable_row_ids() {
            self.res.violate("C18", "O-rowid", "stable-row-ids-switched-off", self.step, format!("after {}: the table was created with stable row ids but version {} no longer carries the feature ({} fragments)", last_op, self.ds.version().version, self.ds.manifest().fragments.len()));
            return;
        }
        let (names, rows) = match scan(&self.ds, &ScanOpts { with_row_id: true, columns: Some(vec!["k".into(), "img".into()]), ..Default::default() }).await {
            Ok(x) => x,
            Err(e) => {
                self.res.violate("C18", "O-rowid", &format!("rowid-scan-error:{}", err_class(&e.to_string())), self.step, format!("scan with _rowid failed: {}", e));
                return;
            }
        };
        let (ri, ii) = match (col_idx(&names, "_rowid"), col_idx(&names, "img")) {
            (Some(a), Some(b)) => (a, b),
            _ => return,
        };
        let restored = self.res.kinds.iter().any(|k| k == "restore");
        let mut seen: BTreeMap<u64, i64> = BTreeMap::new();
        let mut alive: BTreeSet<i64> = BTreeSet::new();
        for r in rows.iter() {
            let (rid, img) = match (r[ri].as_i64(), r[ii].as_i64()) {
                (Some(a), Some(b)) => (a as u64, b),
                _ => continue,
            };
            if let Some(other) = seen.insert(rid, img) {
                self.res.violate("C18", "O-rowid", "rowid-duplicate", self.step, format!("after {}: row id {} carried by images {} and {}", last_op, rid, other, img));
            }
            let ident = match self.lin.ident.get(&img) {
                Some(i) => *i,
                None => continue,
            };
            alive.insert(ident);
            match self.lin.rowid_owner.get(&rid) {
                Some(o) if *o != ident => {
                    let prop = if restored { "C07" } else { "C18" };
                    self.res.violate(prop, "O-rowid", if restored { "rowid-reissued-after-restore" } else { "rowid-reissued" }, self.step, format!("after {}: row id {} first belonged to logical row {} and now labels logical row {} (image {})", last_op, rid, o, ident, img));
                }
                _ => {
                    self.lin.rowid_owner.insert(rid, ident);
                }
            }
            match self.lin.ident_rowid.get(&ident) {
                Some(old) if *old != rid => {
                    self.res.violate("C18", "O-rowid", &format!("rowid-changed:{}", last_op), self.step, format!("after {}: logical row {} had row id {} and now has {}", last_op, ident, old, rid));
                    self.lin.ident_rowid.insert(ident, rid);
                }
                _ => {
                    self.lin.ident_rowid.insert(ident, rid);
                }
            }
        }
        // rows that are gone release their identity -> row id binding (a later restore may bring them back with the same id)
        // look-up of live row ids returns the current values
        if !rows.is_empty() {
            let n = rows.len().min(6);
            let mut picks: Vec<usize> = (0..n).map(|_| self.rng.usize(rows.len())).collect();
            picks.dedup();
            let ids: Vec<u64> = picks.iter().map(|i| rows[*i][ri].as_i64().unwrap() as u64).collect();
            let proj = match self.ds.schema().project(&["k", "img"]) {
                Ok(p) => p,
                Err(_) => return,
            };
            match self.ds.take_rows(&ids, proj).await {
                Ok(b) => {
                    let got = batches_to_rows(&[b]);
                    let exp: Vec<Row> = picks.iter().map(|i| vec![rows[*i][col_idx(&names, "k").unwrap()].clone(), rows[*i][ii].clone()]).collect();
                    if got != exp {
                        self.res.violate("C18", "O-rowid", &format!("take-by-rowid:{}", last_op), self.step, format!("after {}: take_rows({:?}) returned {}", last_op, ids, diff_rows(&exp, &got)));
                    }
                }
                Err(e) => self.res.violate("C18", "O-rowid", &format!("take-by-rowid-error:{}", err_class(&e.to_string())), self.step, format!("after {}: take_rows({:?}) failed: {}", last_op, ids, e)),
            }
        }
    }

    /// Version columns and deltas (needs stable row ids).
    pub async fn o_version_cols(&mut self, last_op: &str) {
        if !self.ctx.stable_row_ids || !self.lin.exact_versions {
            return;
        }
        if !self.ds.manifest().uses_stable_row_ids() {
            self.res.violate("C18", "O-rowid", "stable-row-ids-switched-off", self.step, format!("after {}: the table was created with stable row ids but version {} no longer carries the feature ({} fragments)", last_op, self.ds.version().version, self.ds.manifest().fragments.len()));
            return;
        }
        let (names, rows) = match scan(&self.ds, &ScanOpts { version_cols: true, columns: Some(vec!["img".into()]), ..Default::default() }).await {
            Ok(x) => x,
            Err(e) => {
                self.res.violate("C17", "O-versions", &format!("version-scan-error:{}", err_class(&e.to_string())), self.step, format!("scan with version columns failed: {}", e));
                return;
            }
        };
        let (ii, ci, ui) = match (col_idx(&names, "img"), col_idx(&names, "_row_created_at_version"), col_idx(&names, "_row_last_updated_at_version")) {
            (Some(a), Some(b), Some(c)) => (a, b, c),
            _ => {
                self.res.violate("C17", "O-versions", "version-columns-missing", self.step, format!("columns {:?}", names));
                return;
            }
        };
        let mut bad = 0;
        if std::env::var("VERIF_DEBUG").is_ok() {
            for f in self.ds.manifest().fragments.iter() {
                eprintln!("DEBUG v{} frag {} rows {:?} created_meta {} updated_meta {} files {}", self.ds.version().version, f.id, f.physical_rows, f.created_at_version_meta.is_some(), f.last_updated_at_version_meta.is_some(), f.files.len());
            }
        }
        for r in rows.iter() {
            let img = match r[ii].as_i64() {
                Some(i) => i,
                None => continue,
            };
            let ident = match self.lin.ident.get(&img) {
                Some(i) => *i,
                None => continue,
            };
            let (ec, eu) = (self.lin.created.get(&ident).cloned().unwrap_or(0), self.lin.updated.get(&ident).cloned().unwrap_or(0));
            let (gc, gu) = (r[ci].as_i64().unwrap_or(-1) as u64, r[ui].as_i64().unwrap_or(-1) as u64);
            if gc != ec && bad < 2 {
                bad += 1;
                self.res.violate("C17", "O-versions", &format!("created-at:{}", last_op), self.step, format!("after {}: image {} (logical row {}) created_at={} model {}", last_op, img, ident, gc, ec));
            }
            if gu != eu && bad < 2 {
                bad += 1;
                self.res.violate("C17", "O-versions", &format!("updated-at:{}", last_op), self.step, format!("after {}: image {} (logical row {}) last_updated_at={} model {} (created {})", last_op, img, ident, gu, eu, ec));
            }
        }
        if bad > 0 {
            return;
        }
        // deltas for a random version pair
        let cur = self.ds.version().version;
        if cur < 2 {
            return;
        }
        let a = self.rng.range(1, cur as i64 - 1) as u64;
        let b = self.rng.range(a as i64 + 1, cur as i64) as u64;
        let delta = match self.ds.delta().with_begin_version(a).with_end_version(b).build() {
            Ok(d) => d,
            Err(_) => return,
        };
        let img_set = |bs: Vec<arrow_array::RecordBatch>| -> BTreeSet<i64> {
            let mut s = BTreeSet::new();
            for b in bs.iter() {
                if let Some(c) = b.column_by_name("img") {
                    for i in 0..b.num_rows() {
                        if let Some(v) = array_val(c.as_ref(), i).as_i64() {
                            s.insert(v);
                        }
                    }
                }
            }
            s
        };
        let model_rows: Vec<(i64, u64, u64)> = self
            .st
            .rows
            .iter()
            .filter_map(|r| self.st.col("img").and_then(|i| r[i].as_i64()))
            .filter_map(|img| self.lin.ident.get(&img).map(|id| (img, self.lin.created.get(id).cloned().unwrap_or(0), self.lin.updated.get(id).cloned().unwrap_or(0))))
            .collect();
        match delta.get_inserted_rows().await {
            Ok(s) => match s.try_collect::<Vec<_>>().await {
                Ok(bs) => {
                    let got = img_set(bs);
                    let exp: BTreeSet<i64> = model_rows.iter().filter(|(_, c, _)| *c > a && *c <= b).map(|(i, _, _)| *i).collect();
                    if got != exp {
                        self.res.violate("C17", "O-delta", "inserted-rows", self.step, format!("inserted rows in ({}, {}]: got {} images, model {}; only-lance {:?} only-model {:?}", a, b, got.len(), exp.len(), got.difference(&exp).take(4).collect::<Vec<_>>(), exp.difference(&got).take(4).collect::<Vec<_>>()));
                    }
                }
                Err(e) => self.res.violate("C17", "O-delta", "inserted-rows-error", self.step, e.to_string()),
            },
            Err(e) => self.res.violate("C17", "O-delta", "inserted-rows-error", self.step, e.to_string()),
        }
        match delta.get_updated_rows().await {
            Ok(s) => match s.try_collect::<Vec<_>>().await {
                Ok(bs) => {
                    let got = img_set(bs);
                    let exp: BTreeSet<i64> = model_rows.iter().filter(|(_, c, u)| *c <= a && *u > a && *u <= b).map(|(i, _, _)| *i).collect();
                    if got != exp {
                        self.res.violate("C17", "O-delta", "updated-rows", self.step, format!("updated rows in ({}, {}]: got {} images, model {}; only-lance {:?} only-model {:?}", a, b, got.len(), exp.len(), got.difference(&exp).take(4).collect::<Vec<_>>(), exp.difference(&got).take(4).collect::<Vec<_>>()));
                    }
                }
                Err(e) => self.res.violate("C17", "O-delta", "updated-rows-error", self.step, e.to_string()),
            },
            Err(e) => self.res.violate("C17", "O-delta", "updated-rows-error", self.step, e.to_string()),
        }
    }

    /// Random access agrees with scanning.
    pub async fn o_take(&mut self, last_op: &str) {
        let (names, rows) = match scan(&self.ds, &ScanOpts { ordered: true, with_row_id: true, with_row_addr: true, ..Default::default() }).await {
            Ok(x) => x,
            Err(e) => {
                self.res.violate("C15", "O-take", &format!("ordered-scan-error:{}", err_class(&e.to_string())), self.step, format!("ordered scan failed: {}", e));
                return;
            }
        };
        if rows.is_empty() {
            return;
        }
        let (ri, ai) = match (col_idx(&names, "_rowid"), col_idx(&names, "_rowaddr")) {
            (Some(a), Some(b)) => (a, b),
            _ => return,
        };
        let data_cols: Vec<String> = self.st.cols.iter().map(|c| c.name.clone()).collect();
        // random projection (keeps k so rows are recognisable)
        let mut proj_cols: Vec<String> = vec!["k".into()];
        for c in data_cols.iter() {
            if c != "k" && self.rng.chance(0.5) {
                proj_cols.push(c.clone());
            }
        }
        let pidx: Vec<usize> = proj_cols.iter().map(|c| col_idx(&names, c).unwrap()).collect();
        let project_row = |r: &Row| -> Row { pidx.iter().map(|i| r[*i].clone()).collect() };
        let n = rows.len();
        let mut offsets: Vec<u64> = (0..self.rng.range(1, 12)).map(|_| self.rng.usize(n) as u64).collect();
        if self.rng.chance(0.3) {
            offsets.push(offsets[0]); // duplicate
        }
        if self.rng.chance(0.3) {
            offsets.push((n - 1) as u64);
            offsets.push(0);
        }
        let refs: Vec<&str> = proj_cols.iter().map(|s| s.as_str()).collect();
        let proj = match self.ds.schema().project(&refs) {
            Ok(p) => p,
            Err(_) => return,
        };
        self.res.probe("take-calls");
        // take() by offset: lance returns rows in the requested order
        match self.ds.take(&offsets, proj.clone()).await {
            Ok(b) => {
                let got = batches_to_rows(&[b.clone()]);
                let gn = batch_col_names(&b);
                let exp: Vec<Row> = offsets.iter().map(|o| project_row(&rows[*o as usize])).collect();
                if gn != proj_cols || got != exp {
                    self.res.violate("C15", "O-take", &format!("take-offsets:{}", last_op), self.step, format!("after {}: take({:?}, {:?}) columns {:?}: {}", last_op, offsets, proj_cols, gn, diff_rows(&exp, &got)));
                }
            }
            Err(e) => self.res.violate("C15", "O-take", &format!("take-offsets-error:{}", err_class(&e.to_string())), self.step, format!("after {}: take({:?}) failed: {}", last_op, offsets, e)),
        }
        // take_rows by row id
        let ids: Vec<u64> = offsets.iter().map(|o| rows[*o as usize][ri].as_i64().unwrap() as u64).collect();
        match self.ds.take_rows(&ids, proj.clone()).await {
            Ok(b) => {
                let got = batches_to_rows(&[b]);
                let exp: Vec<Row> = offsets.iter().map(|o| project_row(&rows[*o as usize])).collect();
                if got != exp {
                    self.res.violate("C15", "O-take", &format!("take-rowids:{}{}", last_op, if self.ctx.stable_row_ids { ":stable-row-ids" } else { "" }), self.step, format!("after {}: take_rows({:?}): {}", last_op, ids, diff_rows(&exp, &got)));
                }
            }
            Err(e) => self.res.violate("C15", "O-take", &format!("take-rowids-error:{}", err_class(&e.to_string())), self.step, format!("after {}: take_rows({:?}) failed: {}", last_op, ids, e)),
        }
        // the row address a scan reports resolves back to the same row (addresses = ids without stable row ids)
        if !self.ctx.stable_row_ids {
            for o in offsets.iter().take(3) {
                let r = &rows[*o as usize];
                if r[ri] != r[ai] {
                    self.res.violate("C15", "O-take", "rowid-ne-rowaddr", self.step, format!("without stable row ids _rowid {:?} != _rowaddr {:?}", r[ri], r[ai]));
                }
            }
        }
    }

    /// Feature flags reflect contents; files carry the table's storage version.
    pub fn o_flags(&mut self) {
        let m = self.ds.manifest();
        let has_del = m.fragments.iter().any(|f| f.deletion_file.is_some());
        let has_rowids = m.fragments.iter().any(|f| f.row_id_meta.is_some());
        let rf = m.reader_feature_flags;
        let wf = m.writer_feature_flags;
        let mut problems = Vec::new();
        if has_del != (rf & 1 != 0) || has_del != (wf & 1 != 0) {
            problems.push(format!("deletion files present={} but flags reader={} writer={}", has_del, rf, wf));
        }
        if (has_rowids || self.ctx.stable_row_ids) != (rf & 2 != 0) || (has_rowids || self.ctx.stable_row_ids) != (wf & 2 != 0) {
            problems.push(format!("stable row ids={} (fragments with ids: {}) but flags reader={} writer={}", self.ctx.stable_row_ids, has_rowids, rf, wf));
        }
        if (!m.config.is_empty()) != (wf & 8 != 0) {
            problems.push(format!("config entries={} but writer flags={}", m.config.len(), wf));
        }
        if (!m.base_paths.is_empty()) != (rf & 16 != 0) {
            problems.push(format!("base paths={} but reader flags={}", m.base_paths.len(), rf));
        }
        if rf >= 64 || wf >= 64 {
            problems.push(format!("unknown flag bits set reader={} writer={}", rf, wf));
        }
        for p in problems {
            self.res.violate("C37", "O-flags", "flags-vs-contents", self.step, p);
        }
        // Rides along (plain seeded sampling of a pure rule, not simulation): this version's flag
        // words are accepted, and the same words with any unknown bit (>= 64) added are refused for
        // reading and for writing.
        use lance_table::feature_flags::{can_read_dataset, can_write_dataset};
        if !can_read_dataset(rf) || !can_write_dataset(wf) {
            self.res.violate("C37", "O-flags", "own-flags-refused", self.step, format!("flags written by this build are refused: reader={} writer={}", rf, wf));
        }
        for _ in 0..4 {
            let mut extra: u64 = 0;
            for _ in 0..self.rng.range(1, 3) {
                extra |= 1u64 << self.rng.range(6, 63);
            }
            if can_read_dataset(rf | extra) {
                self.res.violate("C37", "O-flags", "unknown-reader-flag-accepted", self.step, format!("reader flags {} (known {} + unknown bits {}) accepted", rf | extra, rf, extra));
            }
            if can_write_dataset(wf | extra) {
                self.res.violate("C37", "O-flags", "unknown-writer-flag-accepted", self.step, format!("writer flags {} (known {} + unknown bits {}) accepted", wf | extra, wf, extra));
            }
        }
        // all data files carry the table's storage version
        if let Ok(tv) = m.data_storage_format.lance_file_version() {
            let (maj, min) = tv.to_numbers();
            for f in m.fragments.iter() {
                for df in f.files.iter() {
                    if (df.file_major_version, df.file_minor_version) != (maj, min) {
                        self.res.violate("C37", "O-flags", "file-version-vs-table", self.step, format!("fragment {} file {} has version {}.{} table storage version {}.{}", f.id, df.path, df.file_major_version, df.file_minor_version, maj, min));
                    }
                }
            }
        }
    }

    /// Scanner equals the reference query and does not depend on execution knobs.
    pub async fn o_knobs(&mut self, nqueries: usize) {
        let cols = self.st.cols.clone();
        for _ in 0..nqueries {
            let mut p = gen_pred(&mut self.rng, &cols, self.gen.next_k, 2);
            // known finding KF-01 (negation over an exact index keeps NULL rows): generate the
            // triggering shape in a minority of queries only so other defects stay reachable
            for _ in 0..8 {
                let sql = p.sql();
                let neg = sql.contains("NOT (") || sql.contains("<>");
                let mut pc = BTreeSet::new();
                p.columns(&mut pc);
                let hit = cols.iter().any(|c| pc.contains(&c.name) && c.nullable && self.st.indices.iter().any(|i| i.column == c.name));
                if neg && hit && self.rng.chance(0.97) {
                    p = gen_pred(&mut self.rng, &cols, self.gen.next_k, 2);
                } else {
                    break;
                }
            }
            let sql = p.sql();
            // projection
            let mut proj: Vec<String> = Vec::new();
            for c in cols.iter() {
                if self.rng.chance(0.6) {
                    proj.push(c.name.clone());
                }
            }
            if proj.is_empty() {
                proj.push("k".into());
            }
            let pidx: Vec<usize> = proj.iter().map(|c| self.st.col(c).unwrap()).collect();
            let expect: Vec<Row> = self.st.rows.iter().filter(|r| p.eval(&cols, r) == Some(true)).map(|r| pidx.iter().map(|i| r[*i].clone()).collect()).collect();
            let limit = if self.rng.chance(0.3) { Some((self.rng.range(0, 10), self.rng.range(0, 5))) } else { None };
            let ordered = self.st.order_exact && self.rng.chance(0.5);
            let mut base: Option<Vec<Row>> = None;
            let nvec = 4;
            for kv in 0..nvec {
                let o = ScanOpts {
                    filter: Some(sql.clone()),
                    columns: Some(proj.clone()),
                    ordered: ordered || limit.is_some(),
                    batch_size: if kv == 0 { None } else { Some(*self.rng.pick(&[1usize, 3, 16, 1024])) },
                    limit,
                    use_stats: if kv == 0 { None } else { Some(self.rng.chance(0.5)) },
                    use_scalar_index: if kv == 0 { None } else { Some(self.rng.chance(0.5)) },
                    fragment_readahead: if kv == 0 { None } else { Some(*self.rng.pick(&[1usize, 2, 8])) },
                    batch_readahead: if kv == 0 { None } else { Some(*self.rng.pick(&[1usize, 4, 16])) },
                    io_buffer_size: if kv == 0 { None } else { Some(*self.rng.pick(&[4096u64, 1 << 20, 1 << 28])) },
                    late_materialization: if kv == 0 { None } else { Some(self.rng.chance(0.5)) },
                    ..Default::default()
                };
                self.res.probe("knob-queries");
                let knobs = format!("batch={:?} stats={:?} index={:?} frag_ra={:?} batch_ra={:?} iobuf={:?} late={:?}", o.batch_size, o.use_stats, o.use_scalar_index, o.fragment_readahead, o.batch_readahead, o.io_buffer_size, o.late_materialization);
                match scan(&self.ds, &o).await {
                    Ok((names, rows)) => {
                        if names != proj {
                            self.res.violate("C16", "O-knobs", "projection-columns", self.step, format!("query `{}` projection {:?} returned columns {:?}", sql, proj, names));
                            break;
                        }
                        let exact_order = (ordered || limit.is_some()) && self.st.order_exact;
                        let cmp_rows = if exact_order { rows.clone() } else { sorted(&rows) };
                        // against the model
                        if limit.is_none() || exact_order {
                            let mut e = expect.clone();
                            if let Some((lim, off)) = limit {
                                e = e.into_iter().skip(off as usize).take(lim as usize).collect();
                            }
                            let e_cmp = if exact_order { e.clone() } else { sorted(&e) };
                            if cmp_rows != e_cmp {
                                self.res.violate("C16", "O-knobs", &format!("query-vs-model{}", self.query_tags(&p)), self.step, format!("query `{}` proj {:?} limit {:?} [{}]: {}", sql, proj, limit, knobs, diff_rows(&e, &rows)));
                                break;
                            }
                        } else if let Some((lim, _)) = limit {
                            // without a defined order only the count and membership are determined
                            let es: BTreeSet<&Row> = expect.iter().collect();
                            if rows.len() > lim as usize || rows.iter().any(|r| !es.contains(r)) {
                                self.res.violate("C16", "O-knobs", &format!("limit-membership{}", self.query_tags(&p)), self.step, format!("query `{}` limit {:?} [{}] returned {} rows, some not matching", sql, limit, knobs, rows.len()));
                                break;
                            }
                        }
                        match &base {
                            None => base = Some(cmp_rows),
                            Some(b) => {
                                if (limit.is_none() || exact_order) && *b != cmp_rows {
                                    self.res.violate("C16", "O-knobs", &format!("knob-dependence{}", self.query_tags(&p)), self.step, format!("query `{}` differs under knobs [{}]: {}", sql, knobs, diff_rows(b, &cmp_rows)));
                                    break;
                                }
                            }
                        }
                    }
                    Err(e) => {
                        self.res.violate("C16", "O-knobs", &format!("query-error:{}{}", err_class(&e.to_string()), self.query_tags(&p)), self.step, format!("query `{}` [{}] failed: {}", sql, knobs, e));
                        break;
                    }
                }
            }
        }
    }

    /// tags for known index defects that a filter may run into
    pub fn query_tags(&self, p: &Pred) -> String {
        let mut pc = BTreeSet::new();
        p.columns(&mut pc);
        let kinds: Vec<String> = self.st.indices.iter().filter(|i| pc.contains(&i.column)).map(|i| i.kind.clone()).collect();
        if crate::e1::has_not_over_in_conjunction(p, false) {
            return ":not-over-in-conjunction".to_string();
        }
        if kinds.is_empty() {
            return String::new();
        }
        let sql = p.sql();
        let neg = sql.contains("NOT (") || sql.contains("<>");
        format!(":indexed{}{}", if neg { ":negation" } else { "" }, self.idx_tags(&self.used_index_cols(&pc, &[])))
    }
}

//! E1 `conc`: rounds of concurrently started transactions under the seeded scheduler
//! (C03 serializability, C04 lost updates, C24 index coverage, C18 row ids under concurrency).

use std::collections::{BTreeMap, BTreeSet};
use std::sync::Arc;

use crate::driver::{drive, SchedCfg};
use crate::e1::{diff_rows, err_class, guarded, panic_sig, sorted, Mix, Runner};
use crate::model::*;
use crate::runres::{RunCfg, RunResult};
use crate::table::*;
use crate::world::{Decision, Party};

fn conc_mix(prop: &str) -> Mix {
    let mut m = Mix { append: 14, overwrite: 0, delete: 16, update: 14, merge: 12, merge_partial: 8, compact: 8, create_index: 6, optimize: 2, drop_index: 0, add_col: 0, drop_col: 0, rename_col: 0, config: 3, restore: 0 };
    match prop {
        "C04" => {
            m = Mix { append: 2, overwrite: 0, delete: 25, update: 25, merge: 18, merge_partial: 10, compact: 4, create_index: 0, optimize: 0, drop_index: 0, add_col: 0, drop_col: 0, rename_col: 0, config: 0, restore: 0 };
        }
        "C07" => {
            m = Mix { append: 16, overwrite: 0, delete: 8, update: 12, merge: 12, merge_partial: 0, compact: 4, create_index: 0, optimize: 0, drop_index: 0, add_col: 0, drop_col: 0, rename_col: 0, config: 0, restore: 22 };
        }
        "C18" => {
            m.restore = 4;
        }
        "C24" => {
            m = Mix { append: 6, overwrite: 0, delete: 6, update: 10, merge: 6, merge_partial: 22, compact: 12, create_index: 25, optimize: 8, drop_index: 0, add_col: 0, drop_col: 0, rename_col: 0, config: 0, restore: 0 };
        }
        _ => {}
    }
    m
}

fn img_idx(st: &TableState) -> usize {
    st.col("img").expect("img column")
}

fn imgs(st: &TableState) -> BTreeSet<i64> {
    let i = img_idx(st);
    st.rows.iter().filter_map(|r| r[i].as_i64()).collect()
}

struct PartyOutcome {
    actor: u32,
    op: Op,
    read_version: u64,
    result: Result<u64, String>,
}

pub async fn run_conc(cfg: RunCfg) -> RunResult {
    let t0 = std::time::Instant::now();
    let faults_on = cfg.opt_bool("faults").unwrap_or(false);
    let mut r = match Runner::new(cfg.clone()).await {
        Ok(r) => r,
        Err(res) => return res,
    };
    r.gen.inexact_indices = false;
    let mix_prefix = {
        let mut m = Mix::general();
        m.restore = 0;
        m.overwrite = 0;
        m.add_col = 0;
        m.drop_col = 0;
        m.rename_col = 0;
        m.drop_index = 0;
        if cfg.prop == "C24" {
            m.create_index = 14;
        }
        m
    };
    let prefix = r.rng.range(0, 4) as u64;
    let mut step = 0u64;
    for _ in 0..prefix {
        r.step = step;
        let versions: Vec<u64> = r.history.keys().cloned().collect();
        let op = {
            let Runner { gen, rng, st, .. } = &mut r;
            gen.gen_op(rng, st, &mix_prefix, &versions)
        };
        let skip = cfg.skip.contains(&step);
        step += 1;
        if skip {
            continue;
        }
        let out = guarded(async {
            r.do_op(&op).await;
            let k = format!("{}{}", crate::e1::op_sig_kind(&op, &r.st), r.history_tags(&op, &[]));
            r.o_scan(crate::e1::prop_for_op(&op), &k).await;
        })
        .await;
        if out.is_err() || !r.res.violations.is_empty() {
            // a defect hit while building the base history: report it (it is usually a listed
            // known finding) and stop; the concurrent round needs a base the model agrees with
            if let Err(p) = out {
                r.res.violate(crate::e1::prop_for_op(&op), "panic", &format!("panic:{}", panic_sig(&p)), step, format!("panic in prefix {}: {}", op.brief(), p));
            }
            r.res.probe("prefix-problem");
            let mut res = r.finish();
            res.wall_ms = t0.elapsed().as_millis() as u64;
            return res;
        }
    }
    let mix = conc_mix(&cfg.prop);
    let first_base = r.ds.version().version;
    let rounds = if cfg.thorough() { r.rng.range(2, 4) } else { r.rng.range(1, 2) } as u64;
    let mut ihash = 0u64;
    let mut overlapped = false;
    let mut fault_hit_any = false;
    for round in 0..rounds {
        r.step = step;
        let base_v = r.ds.version().version;
        let nparties = if cfg.thorough() { r.rng.range(2, 5) } else { r.rng.range(2, 4) } as usize;
        let cur_cols = r.st.cols.clone();
        let versions: Vec<u64> = r.history.keys().cloned().collect();
        // candidates for read versions: recent versions with the current schema
        let recent: Vec<u64> = versions.iter().cloned().filter(|v| *v + 3 >= base_v && r.history[v].cols == cur_cols).collect();
        let mut plans: Vec<(u32, u64, Op)> = Vec::new();
        for i in 0..nparties {
            let rv = if r.rng.chance(0.7) || recent.is_empty() { base_v } else { *r.rng.pick(&recent) };
            let st_r = r.history[&rv].clone();
            let mut op;
            let mut tries = 0;
            loop {
                op = {
                    let Runner { gen, rng, .. } = &mut r;
                    gen.gen_op(rng, &st_r, &mix, &versions)
                };
                let mut tmp = st_r.clone();
                if model_apply(&mut tmp, &op, &r.history).is_ok() {
                    break;
                }
                tries += 1;
                if tries > 20 {
                    break;
                }
            }
            let actor = 300 + (round as u32) * 10 + i as u32;
            plans.push((actor, rv, op));
        }
        let skip = cfg.skip.contains(&step);
        step += 1;
        if skip {
            continue;
        }
        let round_has_index = !r.st.indices.is_empty() || plans.iter().any(|(_, _, op)| matches!(op, Op::CreateIndex { .. }));
        let earlier_partial = r.res.kinds.iter().any(|k| k.ends_with("merge_partial"));
        if round_has_index && (earlier_partial || plans.iter().any(|(_, _, op)| op.kind() == "merge_partial")) {
            r.seen_col_rewrite = true;
        }
        for (_, _, op) in plans.iter() {
            if let Op::Merge { src_cols, .. } = op {
                if op.kind() == "merge_partial" {
                    for c in src_cols.iter() {
                        r.rewritten_cols.insert(c.clone());
                    }
                }
            }
        }
        for (a, rv, op) in plans.iter() {
            r.res.script.push(format!("{}: round {} party a{} @v{}: {}", step - 1, round, a, rv, op.brief()));
            r.res.kinds.push(format!("c:{}", op.kind()));
        }
        // spawn the parties
        let knobs = r.ctx.party.knobs.clone();
        let mut actors = Vec::new();
        let mut tasks = Vec::new();
        r.w.set_gated(true);
        for (actor, rv, op) in plans.iter().cloned() {
            let party = Arc::new(Party::new(&r.w, actor, knobs.clone()));
            let ctx = r.ctx.for_party(party);
            let st_r = r.history[&rv].clone();
            actors.push(actor);
            tasks.push(tokio::spawn(async move {
                let res = guarded(async {
                    let mut ds = ctx.open_version(rv).await.map_err(|e| format!("open: {}", e))?;
                    with_deadline(2_592_000, "concurrent op", exec_op(&ctx, &mut ds, &st_r, &op)).await.map_err(|e| e.to_string())?;
                    Ok::<u64, String>(ds.version().version)
                })
                .await;
                let result = match res {
                    Ok(x) => x,
                    Err(p) => Err(format!("PANIC {}", p)),
                };
                PartyOutcome { actor, op, read_version: rv, result }
            }));
        }
        let mut sc = SchedCfg { p_reorder: 0.1, p_stick: r.rng.f64() * 0.9, ..Default::default() };
        if faults_on {
            sc.fault_budget = r.rng.range(1, 2) as u32;
            sc.p_fault = 0.03;
            sc.faults = vec![Decision::FailPre, Decision::CrashPre, Decision::CrashPost];
        }
        let out = drive(&r.w, &mut r.rng, &sc, &actors, &mut tasks, cfg.trace).await;
        r.w.set_gated(false);
        ihash = crate::rng::mix(&[ihash, out.hash]);
        overlapped |= out.overlapped;
        fault_hit_any |= out.faults_fired > 0;
        if cfg.trace {
            r.res.trace.extend(out.trace.iter().cloned());
        }
        if out.stuck {
            if out.crashed.is_empty() {
                r.res.violate("C03", "liveness", "stuck-round", r.step, "concurrent round made no progress for the liveness bound".into());
            } else {
                // After a party was killed mid-operation a surviving party occasionally never reaches
                // the gate again. Not yet explained (could be process-global state shared by parties
                // that only exists because they live in one process), so it is not reported as a
                // violation: the run is inconclusive.
                r.res.probe("inconclusive-stuck-after-crash");
            }
            break;
        }
        let mut outcomes: Vec<PartyOutcome> = Vec::new();
        for (i, t) in tasks.into_iter().enumerate() {
            match t.await {
                Ok(o) => outcomes.push(o),
                Err(_) => {
                    // crashed (aborted) party
                    let (actor, rv, op) = plans[i].clone();
                    outcomes.push(PartyOutcome { actor, op, read_version: rv, result: Err("CRASHED".into()) });
                }
            }
        }
        for o in outcomes.iter() {
            match &o.result {
                Ok(_) => r.res.probe("txn-committed"),
                Err(e) if e.starts_with("PANIC") && (e.contains("sim fault") || e.contains("sim: party is dead")) => {
                    // unwrap() on an injected storage error: the party dies, which is what a crash is
                    r.res.probe("panic-on-injected-error");
                }
                Err(e) if e.starts_with("PANIC") => {
                    r.res.violate("C03", "panic", &format!("panic:{}", panic_sig(e)), r.step, format!("{} panicked: {}", o.op.brief(), e));
                }
                Err(e) if e == "CRASHED" => r.res.probe("txn-crashed"),
                Err(e) => {
                    r.res.probe("txn-failed");
                    let c = err_class(e);
                    r.res.probe(&format!("fail:{}", c.chars().take(40).collect::<String>()));
                }
            }
        }
        if !r.res.violations.is_empty() {
            break;
        }
        // ---- serial replay ----
        let chk = guarded(check_round(&mut r, base_v, &outcomes, faults_on)).await;
        if let Err(p) = chk {
            r.res.violate("C03", "panic", &format!("panic-in-check:{}", panic_sig(&p)), r.step, format!("panic while checking round: {}", p));
        }
        if !r.res.violations.is_empty() {
            break;
        }
    }
    r.step = step;
    if r.res.violations.is_empty() {
        let fin = guarded(async {
            r.o_validate().await;
            r.o_versions().await;
            if r.cfg.prop == "C24" {
                r.o_index_diff(10).await;
            }
            if matches!(r.cfg.prop.as_str(), "C18" | "C07") {
                let latest = r.ds.version().version;
                for v in (first_base + 1)..latest {
                    r.o_rowids_version(v, "concurrent-round").await;
                }
                r.o_rowids("concurrent-round").await;
                r.o_take("concurrent-round").await;
                // writes after the round must not re-issue identities handed out during it
                for _ in 0..2 {
                    let versions: Vec<u64> = r.history.keys().cloned().collect();
                    let op = {
                        let Runner { gen, rng, st, .. } = &mut r;
                        let m = Mix { append: 10, overwrite: 0, delete: 0, update: 4, merge: 6, merge_partial: 0, compact: 0, create_index: 0, optimize: 0, drop_index: 0, add_col: 0, drop_col: 0, rename_col: 0, config: 0, restore: 0 };
                        gen.gen_op(rng, st, &m, &versions)
                    };
                    r.step += 1;
                    r.do_op(&op).await;
                    r.o_scan(crate::e1::prop_for_op(&op), "after-round").await;
                    r.o_rowids("after-round").await;
                }
            }
            r.o_time_travel(3).await;
        })
        .await;
        if let Err(p) = fin {
            r.res.violate("C03", "panic", &format!("panic-final:{}", panic_sig(&p)), step, format!("panic in final checks: {}", p));
        }
    }
    // attribute index mismatches after a race to C24
    if cfg.prop == "C24" {
        for v in r.res.violations.iter_mut() {
            if v.oracle == "O-index-diff" && v.prop == "C19" {
                v.prop = "C24".into();
            }
        }
    }
    r.res.nontrivial = overlapped || fault_hit_any;
    r.res.interleaving_hash = ihash;
    if overlapped {
        r.res.probe("overlapped");
    }
    let mut res = r.finish();
    res.wall_ms = t0.elapsed().as_millis() as u64;
    res
}

async fn check_round(r: &mut Runner, base_v: u64, outcomes: &[PartyOutcome], faults_on: bool) {
    let step = r.step;
    let party = r.fresh_party();
    let ctx = r.ctx.for_party(party);
    let latest = match ctx.open().await {
        Ok(ds) => ds,
        Err(e) => {
            r.res.violate("C03", "open-after-round", "cannot-open-after-round", step, format!("fresh open failed: {}", e));
            return;
        }
    };
    let l = latest.version().version;
    if l < base_v {
        r.res.violate("C01", "version-monotone", "latest-went-back", step, format!("latest {} < {}", l, base_v));
        return;
    }
    // who claims which version
    let mut claimed: BTreeMap<u64, &PartyOutcome> = BTreeMap::new();
    for o in outcomes.iter() {
        if let Ok(v) = &o.result {
            if *v <= base_v || *v > l {
                // an operation that did nothing (e.g. compaction with nothing to do) keeps its read version
                if *v == o.read_version {
                    r.res.probe("txn-noop");
                    continue;
                }
                r.res.violate("C03", "commit-version", "ok-with-version-out-of-range", step, format!("a{} {} returned Ok at version {} but the round spans {}..={}", o.actor, o.op.brief(), v, base_v + 1, l));
                continue;
            }
            if let Some(prev) = claimed.insert(*v, o) {
                r.res.violate("C02", "one-winner", "two-parties-same-version", step, format!("a{} and a{} both committed version {}", prev.actor, o.actor, v));
            }
        }
    }
    let mut cur = r.history[&base_v].clone();
    let mut used_fallback: BTreeSet<u32> = BTreeSet::new();
    for v in (base_v + 1)..=l {
        let dv = match latest.checkout_version(v).await {
            Ok(d) => d,
            Err(e) => {
                r.res.violate("C01", "dense-versions", "version-missing-after-round", step, format!("version {} of {}..={} cannot be opened: {}", v, base_v + 1, l, e));
                return;
            }
        };
        let got = match scan_all(&dv, false).await {
            Ok((_, rows)) => sorted(&rows),
            Err(e) => {
                r.res.violate("C03", "O-serial", &format!("scan-error-after-round:{}", err_class(&e.to_string())), step, format!("scan of version {} failed: {}", v, e));
                return;
            }
        };
        let mut txn_op = String::new();
        let read_version = match dv.read_transaction_by_version(v).await {
            Ok(Some(t)) => {
                if std::env::var("VERIF_DEBUG").is_ok() {
                    use lance_index::DatasetIndexExt;
                    let idx = dv.load_indices().await.map(|i| i.iter().map(|x| x.name.clone()).collect::<Vec<_>>()).unwrap_or_default();
                    eprintln!("DEBUG version {} txn uuid {} op {} read_version {} indices {:?} claimed_by {:?}", v, t.uuid, t.operation.name(), t.read_version, idx, claimed.get(&v).map(|o| o.actor));
                }
                txn_op = t.operation.name().to_string();
                Some(t.read_version)
            }
            _ => None,
        };
        let mut expect_states: Vec<(TableState, String)> = Vec::new();
        let mut c04_msg: Option<String> = None;
        if let Some(o) = claimed.get(&v) {
            // The transaction file records the version the commit was *rebased onto*, not the one
            // the effect was computed at (an internal retry re-executes at some newer version), so
            // every read version between the party's start and v-1 is a legitimate candidate.
            let _ = read_version;
            for rv in o.read_version..v {
                if !r.history.contains_key(&rv) {
                    continue;
                }
                match apply_effect(r, &cur, o, rv) {
                    Ok(next) => expect_states.push((next, format!("a{} {} computed at v{}", o.actor, o.op.brief(), rv))),
                    Err(msg) => {
                        if rv == o.read_version {
                            c04_msg = Some(msg);
                        }
                    }
                }
            }
            if o.read_version + 1 < v {
                r.res.probe("rebased-over-concurrent-commit");
            }
            if expect_states.is_empty() {
                let msg = c04_msg.clone().unwrap_or_default();
                r.res.violate("C04", "lost-update", &format!("same-row-modified-twice:{}", crate::e1::op_sig_kind(&o.op, &tag_state(r, o, outcomes, &cur))), step, format!("version {} by a{} {} (started at {}): {}", v, o.actor, o.op.brief(), o.read_version, msg));
                return;
            }
        } else {
            // unclaimed: (with faults) the effect of a party that reported failure or crashed after
            // its commit point, else content neutral (e.g. ReserveFragments of a compaction)
            if faults_on {
                for o in outcomes.iter() {
                    if o.result.is_err() && !used_fallback.contains(&o.actor) && txn_op_matches(&txn_op, &o.op) {
                        for rv in o.read_version..v {
                            if !r.history.contains_key(&rv) {
                                continue;
                            }
                            if let Ok(next) = apply_effect(r, &cur, o, rv) {
                                expect_states.push((next, format!("a{} {} (reported failure after a fault) computed at v{}", o.actor, o.op.brief(), rv)));
                            }
                        }
                    }
                }
            }
            expect_states.push((cur.clone(), "no change (unclaimed version)".into()));
        }
        // several candidates can have the same rows (e.g. an unacknowledged create_index vs an
        // unacknowledged optimize_indices): prefer the one whose index list is what the version has
        let got_idx: Option<Vec<String>> = {
            use lance_index::DatasetIndexExt;
            dv.load_indices().await.ok().map(|ix| {
                let mut n: Vec<String> = ix.iter().filter(|i| !i.name.starts_with("__")).map(|i| i.name.clone()).collect();
                n.sort();
                n.dedup();
                n
            })
        };
        let idx_names = |st: &TableState| {
            let mut n: Vec<String> = st.indices.iter().map(|i| i.name.clone()).collect();
            n.sort();
            n
        };
        let mut matched = None;
        for (i, (stt, _)) in expect_states.iter().enumerate() {
            if stt.sorted_rows() == got && got_idx.as_ref().map(|g| *g == idx_names(stt)).unwrap_or(true) {
                matched = Some(i);
                break;
            }
        }
        if matched.is_none() {
            for (i, (stt, _)) in expect_states.iter().enumerate() {
                if stt.sorted_rows() == got {
                    matched = Some(i);
                    break;
                }
            }
        }
        match matched {
            Some(i) => {
                let (stt, who) = expect_states.swap_remove(i);
                if i > 0 && who.contains("computed at") {
                    r.res.probe("re-executed-at-newer-version");
                }
                if who.contains("reported failure") {
                    r.res.probe("committed-but-reported-error");
                    if let Some(a) = who.strip_prefix('a').and_then(|s| s.split(' ').next()).and_then(|s| s.parse::<u32>().ok()) {
                        used_fallback.insert(a);
                    }
                }
                if let Some(o) = claimed.get(&v) {
                    r.lin.apply(&o.op, &cur, &stt, v);
                } else if who.contains("reported failure") {
                    if let Some(o) = outcomes.iter().find(|o| who.starts_with(&format!("a{} ", o.actor))) {
                        r.lin.apply(&o.op, &cur, &stt, v);
                    }
                }
                cur = stt;
            }
            None => {
                let (stt, who) = &expect_states[0];
                let prop = if c04_msg.is_some() { "C04" } else { "C03" };
                let kind_s = claimed.get(&v).map(|o| crate::e1::op_sig_kind(&o.op, &tag_state(r, o, outcomes, &cur))).unwrap_or_else(|| {
                    // unclaimed version: attribute to the failed party whose operation fits the transaction
                    let cands: Vec<&PartyOutcome> = outcomes.iter().filter(|o| o.result.is_err() && txn_op_matches(&txn_op, &o.op)).collect();
                    // several fit: take the one whose expected effect is closest to what the version shows
                    let mut best: Option<(usize, &PartyOutcome)> = None;
                    for c in cands.iter() {
                        for rv in c.read_version..v {
                            if let Ok(next) = apply_effect(r, &cur, c, rv) {
                                let exp: BTreeSet<Row> = next.rows.iter().cloned().collect();
                                let act: BTreeSet<Row> = got.iter().cloned().collect();
                                let d = exp.symmetric_difference(&act).count();
                                if best.map(|(bd, _)| d < bd).unwrap_or(true) {
                                    best = Some((d, c));
                                }
                            }
                        }
                    }
                    match best {
                        Some((_, c)) if faults_on => format!("{}:unclaimed{}", crate::e1::op_sig_kind(&c.op, &tag_state(r, c, outcomes, &cur)), r.history_tags(&c.op, &[])),
                        _ => "unclaimed".to_string(),
                    }
                });
                let extra: Vec<String> = outcomes.iter().filter_map(|p| if let Op::CreateIndex { col, .. } = &p.op { Some(col.clone()) } else { None }).collect();
                let tags = claimed.get(&v).map(|o| r.history_tags(&o.op, &extra)).unwrap_or_default();
                let kind_s = format!("{}{}", kind_s, tags);
                let kind = kind_s.as_str();
                let who = &format!("{}{}", who, c04_msg.as_ref().map(|m| format!("; at its own read version: {}", m)).unwrap_or_default());
                r.res.violate(prop, "O-serial", &format!("serial-replay-mismatch:{}", kind), step, format!("version {} ({}): {}", v, who, diff_rows(&stt.rows, &got)));
                return;
            }
        }
        r.history.insert(v, cur.clone());
    }
    // failed parties must leave no trace: covered by the replay (their rows would be unexpected)
    r.st = cur;
    match ctx.open().await {
        Ok(ds) => r.ds = ds,
        Err(_) => {}
    }
    // re-bind the long lived handle to the main party
    if let Ok(ds) = r.ctx.open().await {
        r.ds = ds;
    }
}

/// State used to tag a concurrent operation: indices at its read version plus every index
/// another party of the round creates (a retry may re-execute after that index exists).
fn tag_state(r: &Runner, o: &PartyOutcome, outcomes: &[PartyOutcome], cur: &TableState) -> TableState {
    let mut st = r.history.get(&o.read_version).cloned().unwrap_or_else(|| cur.clone());
    // a retry may re-execute at any later version: indices that exist by then count as well
    st.indices.extend(cur.indices.iter().cloned());
    for p in outcomes.iter() {
        if let Op::CreateIndex { col, kind, name, .. } = &p.op {
            st.indices.push(ModelIndex { name: name.clone(), column: col.clone(), kind: format!("{:?}", kind) });
        }
    }
    st
}

/// Does the operation name recorded in a transaction file fit this generated operation?
fn txn_op_matches(txn_op: &str, op: &Op) -> bool {
    let want: &[&str] = match op {
        Op::Append { .. } => &["Append"],
        Op::Overwrite { .. } => &["Overwrite"],
        Op::Delete { .. } => &["Delete"],
        Op::Update { .. } | Op::Merge { .. } => &["Update", "Append", "Delete"],
        Op::Compact { .. } => &["Rewrite", "ReserveFragments"],
        Op::CreateIndex { .. } | Op::OptimizeIndices { .. } | Op::DropIndex { .. } => &["CreateIndex"],
        Op::UpdateConfig { .. } => &["UpdateConfig"],
        Op::Restore { .. } => &["Restore"],
        _ => &[],
    };
    txn_op.is_empty() || want.contains(&txn_op)
}

/// Row-level effect of `o.op` computed at read version `rv`, applied to `cur`.
fn apply_effect(r: &Runner, cur: &TableState, o: &PartyOutcome, rv: u64) -> Result<TableState, String> {
    let st_r = match r.history.get(&rv) {
        Some(s) => s.clone(),
        None => return Err(format!("model has no state for read version {}", rv)),
    };
    let mut post = st_r.clone();
    if let Err(e) = model_apply(&mut post, &o.op, &r.history) {
        return Err(format!("operation invalid at read version {}: {}", rv, e));
    }
    if let Op::Restore { .. } = &o.op {
        // a restore is compatible with everything: whatever committed before it is replaced by
        // the restored version's contents
        if post.cols != cur.cols {
            return Err("schema change in concurrent round not modelled".into());
        }
        post.order_exact = false;
        return Ok(post);
    }
    let mut next = cur.clone();
    if st_r.cols != post.cols || st_r.cols != cur.cols {
        return Err("schema change in concurrent round not modelled".into());
    }
    let before = imgs(&st_r);
    let after = imgs(&post);
    let removed: BTreeSet<i64> = before.difference(&after).cloned().collect();
    let ii = img_idx(&post);
    let added: Vec<Row> = post.rows.iter().filter(|row| row[ii].as_i64().map(|x| !before.contains(&x)).unwrap_or(true)).cloned().collect();
    let cur_imgs = imgs(cur);
    for x in removed.iter() {
        if !cur_imgs.contains(x) {
            return Err(format!("row image {} was deleted/updated by this transaction but an earlier committed transaction had already removed or replaced it", x));
        }
    }
    next.rows.retain(|row| row[ii].as_i64().map(|x| !removed.contains(&x)).unwrap_or(true));
    next.rows.extend(added);
    next.order_exact = false;
    // non-row effects
    match &o.op {
        Op::UpdateConfig { .. } | Op::CreateIndex { .. } | Op::DropIndex { .. } => {
            let mut tmp = next.clone();
            let _ = model_apply(&mut tmp, &o.op, &r.history);
            next.config = tmp.config;
            next.indices = tmp.indices;
        }
        _ => {}
    }
    Ok(next)
}

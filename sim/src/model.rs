//! Reference model of a table: values, rows, predicates with SQL three-valued
//! logic, and the model-side implementation of every operation the workloads use.

use std::collections::{BTreeMap, BTreeSet};
use std::sync::Arc;

use arrow_array::builder::{ListBuilder, StringBuilder};
use arrow_array::cast::AsArray;
use arrow_array::types::*;
use arrow_array::{
    Array, ArrayRef, BooleanArray, FixedSizeListArray, Float32Array, Float64Array, Int32Array, Int64Array,
    RecordBatch, StringArray,
};
use arrow_schema::{DataType, Field, Schema};
use serde::Serialize;

use crate::rng::Rng;

#[derive(Clone, Debug, PartialEq, Eq, PartialOrd, Ord, Hash, Serialize)]
pub enum Val {
    Null,
    B(bool),
    I(i64),
    /// f64 bits, canonicalised (all NaNs equal, -0 kept distinct from +0)
    F(u64),
    S(String),
    L(Vec<Val>),
}

impl Val {
    pub fn f(x: f64) -> Self {
        if x.is_nan() {
            Self::F(f64::NAN.to_bits())
        } else {
            Self::F(x.to_bits())
        }
    }
    pub fn as_f64(&self) -> Option<f64> {
        match self {
            Self::F(b) => Some(f64::from_bits(*b)),
            Self::I(i) => Some(*i as f64),
            _ => None,
        }
    }
    pub fn as_i64(&self) -> Option<i64> {
        match self {
            Self::I(i) => Some(*i),
            _ => None,
        }
    }
    pub fn is_null(&self) -> bool {
        matches!(self, Self::Null)
    }
    pub fn show(&self) -> String {
        match self {
            Self::Null => "NULL".into(),
            Self::B(b) => b.to_string(),
            Self::I(i) => i.to_string(),
            Self::F(b) => format!("{:?}", f64::from_bits(*b)),
            Self::S(s) => format!("{:?}", s),
            Self::L(l) => format!("[{}]", l.iter().map(|v| v.show()).collect::<Vec<_>>().join(",")),
        }
    }
}

#[derive(Clone, Copy, Debug, PartialEq, Eq, Hash, Serialize)]
pub enum Ty {
    I64,
    I32,
    F64,
    Str,
    Bool,
    /// List<Utf8>
    Tags,
    /// FixedSizeList<Float32, dim>
    Vec(i32),
}

impl Ty {
    pub fn arrow(self) -> DataType {
        match self {
            Self::I64 => DataType::Int64,
            Self::I32 => DataType::Int32,
            Self::F64 => DataType::Float64,
            Self::Str => DataType::Utf8,
            Self::Bool => DataType::Boolean,
            Self::Tags => DataType::List(Arc::new(Field::new("item", DataType::Utf8, true))),
            Self::Vec(d) => DataType::FixedSizeList(Arc::new(Field::new("item", DataType::Float32, true)), d),
        }
    }
}

#[derive(Clone, Debug, PartialEq, Eq, Serialize)]
pub struct ColDef {
    pub name: String,
    pub ty: Ty,
    pub nullable: bool,
}

pub type Row = Vec<Val>;

#[derive(Clone, Debug, Serialize)]
pub struct ModelIndex {
    pub name: String,
    pub column: String,
    pub kind: String,
}

/// State of one table version.
#[derive(Clone, Debug, Default, Serialize)]
pub struct TableState {
    pub cols: Vec<ColDef>,
    pub rows: Vec<Row>,
    /// true while `rows` is in the physical order lance must return
    pub order_exact: bool,
    pub config: BTreeMap<String, String>,
    pub indices: Vec<ModelIndex>,
}

impl TableState {
    pub fn col(&self, name: &str) -> Option<usize> {
        self.cols.iter().position(|c| c.name == name)
    }
    pub fn arrow_schema(&self) -> Arc<Schema> {
        Arc::new(Schema::new(
            self.cols
                .iter()
                .map(|c| Field::new(&c.name, c.ty.arrow(), c.nullable))
                .collect::<Vec<_>>(),
        ))
    }
    pub fn sorted_rows(&self) -> Vec<Row> {
        let mut r = self.rows.clone();
        r.sort();
        r
    }
    pub fn project(&self, names: &[&str]) -> Vec<Row> {
        let idx: Vec<usize> = names.iter().map(|n| self.col(n).unwrap()).collect();
        self.rows.iter().map(|r| idx.iter().map(|i| r[*i].clone()).collect()).collect()
    }
}

pub fn default_cols() -> Vec<ColDef> {
    vec![
        ColDef { name: "k".into(), ty: Ty::I64, nullable: false },
        ColDef { name: "img".into(), ty: Ty::I64, nullable: false },
        ColDef { name: "v".into(), ty: Ty::I64, nullable: true },
        ColDef { name: "s".into(), ty: Ty::Str, nullable: true },
        ColDef { name: "f".into(), ty: Ty::F64, nullable: true },
    ]
}

// ---------------------------------------------------------------------------
// Arrow conversion
// ---------------------------------------------------------------------------

pub fn rows_to_batch(cols: &[ColDef], rows: &[Row]) -> RecordBatch {
    let schema = Arc::new(Schema::new(
        cols.iter().map(|c| Field::new(&c.name, c.ty.arrow(), c.nullable)).collect::<Vec<_>>(),
    ));
    let mut arrays: Vec<ArrayRef> = Vec::new();
    for (ci, c) in cols.iter().enumerate() {
        let a: ArrayRef = match c.ty {
            Ty::I64 => Arc::new(Int64Array::from(rows.iter().map(|r| r[ci].as_i64()).collect::<Vec<_>>())),
            Ty::I32 => Arc::new(Int32Array::from(
                rows.iter().map(|r| r[ci].as_i64().map(|x| x as i32)).collect::<Vec<_>>(),
            )),
            Ty::F64 => Arc::new(Float64Array::from(
                rows.iter()
                    .map(|r| match &r[ci] {
                        Val::F(b) => Some(f64::from_bits(*b)),
                        _ => None,
                    })
                    .collect::<Vec<_>>(),
            )),
            Ty::Str => Arc::new(StringArray::from(
                rows.iter()
                    .map(|r| match &r[ci] {
                        Val::S(s) => Some(s.clone()),
                        _ => None,
                    })
                    .collect::<Vec<_>>(),
            )),
            Ty::Bool => Arc::new(BooleanArray::from(
                rows.iter()
                    .map(|r| match &r[ci] {
                        Val::B(b) => Some(*b),
                        _ => None,
                    })
                    .collect::<Vec<_>>(),
            )),
            Ty::Tags => {
                let mut b = ListBuilder::new(StringBuilder::new());
                for r in rows {
                    match &r[ci] {
                        Val::L(items) => {
                            for it in items {
                                match it {
                                    Val::S(s) => b.values().append_value(s),
                                    _ => b.values().append_null(),
                                }
                            }
                            b.append(true);
                        }
                        _ => b.append(false),
                    }
                }
                Arc::new(b.finish())
            }
            Ty::Vec(d) => {
                let mut vals: Vec<f32> = Vec::new();
                let mut valid = Vec::new();
                for r in rows {
                    match &r[ci] {
                        Val::L(items) => {
                            for it in items {
                                vals.push(it.as_f64().unwrap_or(0.0) as f32);
                            }
                            valid.push(true);
                        }
                        _ => {
                            vals.extend(std::iter::repeat(0.0).take(d as usize));
                            valid.push(false);
                        }
                    }
                }
                let values = Float32Array::from(vals);
                Arc::new(
                    FixedSizeListArray::try_new(
                        Arc::new(Field::new("item", DataType::Float32, true)),
                        d,
                        Arc::new(values),
                        if c.nullable { Some(valid.into()) } else { None },
                    )
                    .unwrap(),
                )
            }
        };
        arrays.push(a);
    }
    if cols.is_empty() {
        return RecordBatch::try_new_with_options(
            schema,
            vec![],
            &arrow_array::RecordBatchOptions::new().with_row_count(Some(rows.len())),
        )
        .unwrap();
    }
    RecordBatch::try_new(schema, arrays).unwrap()
}

pub fn array_val(a: &dyn Array, i: usize) -> Val {
    if a.is_null(i) {
        return Val::Null;
    }
    match a.data_type() {
        DataType::Int64 => Val::I(a.as_primitive::<Int64Type>().value(i)),
        DataType::Int32 => Val::I(a.as_primitive::<Int32Type>().value(i) as i64),
        DataType::Int16 => Val::I(a.as_primitive::<Int16Type>().value(i) as i64),
        DataType::Int8 => Val::I(a.as_primitive::<Int8Type>().value(i) as i64),
        DataType::UInt64 => Val::I(a.as_primitive::<UInt64Type>().value(i) as i64),
        DataType::UInt32 => Val::I(a.as_primitive::<UInt32Type>().value(i) as i64),
        DataType::UInt16 => Val::I(a.as_primitive::<UInt16Type>().value(i) as i64),
        DataType::UInt8 => Val::I(a.as_primitive::<UInt8Type>().value(i) as i64),
        DataType::Float64 => Val::f(a.as_primitive::<Float64Type>().value(i)),
        DataType::Float32 => Val::f(a.as_primitive::<Float32Type>().value(i) as f64),
        DataType::Utf8 => Val::S(a.as_string::<i32>().value(i).to_string()),
        DataType::LargeUtf8 => Val::S(a.as_string::<i64>().value(i).to_string()),
        DataType::Boolean => Val::B(a.as_boolean().value(i)),
        DataType::Date32 => Val::I(a.as_primitive::<Date32Type>().value(i) as i64),
        DataType::List(_) => {
            let l = a.as_list::<i32>().value(i);
            Val::L((0..l.len()).map(|j| array_val(l.as_ref(), j)).collect())
        }
        DataType::LargeList(_) => {
            let l = a.as_list::<i64>().value(i);
            Val::L((0..l.len()).map(|j| array_val(l.as_ref(), j)).collect())
        }
        DataType::FixedSizeList(_, _) => {
            let l = a.as_fixed_size_list().value(i);
            Val::L((0..l.len()).map(|j| array_val(l.as_ref(), j)).collect())
        }
        other => Val::S(format!("<unsupported {:?}>", other)),
    }
}

/// Convert batches into rows (all columns, in batch column order).
pub fn batches_to_rows(batches: &[RecordBatch]) -> Vec<Row> {
    let mut out = Vec::new();
    for b in batches {
        for i in 0..b.num_rows() {
            out.push(b.columns().iter().map(|c| array_val(c.as_ref(), i)).collect());
        }
    }
    out
}

pub fn batch_col_names(b: &RecordBatch) -> Vec<String> {
    b.schema().fields().iter().map(|f| f.name().clone()).collect()
}

// ---------------------------------------------------------------------------
// Predicates and expressions (restricted grammar with unambiguous SQL semantics)
// ---------------------------------------------------------------------------

#[derive(Clone, Debug, Serialize)]
pub enum Lit {
    I(i64),
    F(f64),
    S(String),
    B(bool),
}

impl Lit {
    pub fn sql(&self) -> String {
        match self {
            Self::I(i) => i.to_string(),
            Self::F(f) => {
                if f.fract() == 0.0 {
                    format!("{:.1}", f)
                } else {
                    format!("{}", f)
                }
            }
            Self::S(s) => format!("'{}'", s.replace('\'', "''")),
            Self::B(b) => b.to_string(),
        }
    }
    pub fn val(&self) -> Val {
        match self {
            Self::I(i) => Val::I(*i),
            Self::F(f) => Val::f(*f),
            Self::S(s) => Val::S(s.clone()),
            Self::B(b) => Val::B(*b),
        }
    }
}

#[derive(Clone, Copy, Debug, PartialEq, Eq, Serialize)]
pub enum Cmp {
    Eq,
    Ne,
    Lt,
    Le,
    Gt,
    Ge,
}

impl Cmp {
    pub fn sql(self) -> &'static str {
        match self {
            Self::Eq => "=",
            Self::Ne => "<>",
            Self::Lt => "<",
            Self::Le => "<=",
            Self::Gt => ">",
            Self::Ge => ">=",
        }
    }
    pub const ALL: [Cmp; 6] = [Cmp::Eq, Cmp::Ne, Cmp::Lt, Cmp::Le, Cmp::Gt, Cmp::Ge];
}

#[derive(Clone, Debug, Serialize)]
pub enum Pred {
    Cmp(String, Cmp, Lit),
    /// col % m = r   (integer columns only)
    Mod(String, i64, i64),
    Between(String, Lit, Lit),
    In(String, Vec<Lit>),
    IsNull(String),
    IsNotNull(String),
    IsTrue(String),
    IsFalse(String),
    /// contains(col, 'sub') on a string column (what n-gram indices accelerate)
    Contains(String, String),
    Not(Box<Pred>),
    And(Box<Pred>, Box<Pred>),
    Or(Box<Pred>, Box<Pred>),
    True,
}

fn cmp_vals(a: &Val, b: &Val) -> Option<std::cmp::Ordering> {
    match (a, b) {
        (Val::Null, _) | (_, Val::Null) => None,
        (Val::I(x), Val::I(y)) => Some(x.cmp(y)),
        (Val::S(x), Val::S(y)) => Some(x.as_bytes().cmp(y.as_bytes())),
        (Val::B(x), Val::B(y)) => Some(x.cmp(y)),
        _ => {
            let (x, y) = (a.as_f64()?, b.as_f64()?);
            // SQL/DataFusion total order for floats: NaN greater than everything, equal to itself
            Some(x.total_cmp(&y)).map(|o| {
                if x == y {
                    std::cmp::Ordering::Equal
                } else {
                    o
                }
            })
        }
    }
}

impl Pred {
    pub fn sql(&self) -> String {
        match self {
            Self::Cmp(c, op, l) => format!("{} {} {}", c, op.sql(), l.sql()),
            Self::Mod(c, m, r) => format!("{} % {} = {}", c, m, r),
            Self::Between(c, a, b) => format!("{} BETWEEN {} AND {}", c, a.sql(), b.sql()),
            Self::In(c, ls) => format!("{} IN ({})", c, ls.iter().map(|l| l.sql()).collect::<Vec<_>>().join(", ")),
            Self::IsNull(c) => format!("{} IS NULL", c),
            Self::IsNotNull(c) => format!("{} IS NOT NULL", c),
            Self::IsTrue(c) => format!("{} IS TRUE", c),
            Self::IsFalse(c) => format!("{} IS FALSE", c),
            Self::Contains(c, sub) => format!("contains({}, '{}')", c, sub.replace('\'', "''")),
            Self::Not(p) => format!("NOT ({})", p.sql()),
            Self::And(a, b) => format!("({}) AND ({})", a.sql(), b.sql()),
            Self::Or(a, b) => format!("({}) OR ({})", a.sql(), b.sql()),
            Self::True => "true".into(),
        }
    }

    /// SQL three-valued evaluation: Some(true) / Some(false) / None (NULL)
    pub fn eval(&self, cols: &[ColDef], row: &Row) -> Option<bool> {
        let get = |c: &str| -> &Val {
            let i = cols.iter().position(|x| x.name == c).expect("column in model");
            &row[i]
        };
        match self {
            Self::True => Some(true),
            Self::Cmp(c, op, l) => {
                let o = cmp_vals(get(c), &l.val())?;
                Some(match op {
                    Cmp::Eq => o.is_eq(),
                    Cmp::Ne => o.is_ne(),
                    Cmp::Lt => o.is_lt(),
                    Cmp::Le => o.is_le(),
                    Cmp::Gt => o.is_gt(),
                    Cmp::Ge => o.is_ge(),
                })
            }
            Self::Mod(c, m, r) => match get(c) {
                Val::I(x) => Some(x % m == *r),
                _ => None,
            },
            Self::Between(c, a, b) => {
                let v = get(c);
                let lo = cmp_vals(v, &a.val())?;
                let hi = cmp_vals(v, &b.val())?;
                Some(lo.is_ge() && hi.is_le())
            }
            Self::In(c, ls) => {
                let v = get(c);
                if v.is_null() {
                    return None;
                }
                Some(ls.iter().any(|l| cmp_vals(v, &l.val()).map(|o| o.is_eq()).unwrap_or(false)))
            }
            Self::IsNull(c) => Some(get(c).is_null()),
            Self::IsNotNull(c) => Some(!get(c).is_null()),
            Self::Contains(c, sub) => match get(c) {
                Val::S(x) => Some(x.contains(sub.as_str())),
                _ => None,
            },
            Self::IsTrue(c) => Some(matches!(get(c), Val::B(true))),
            Self::IsFalse(c) => Some(matches!(get(c), Val::B(false))),
            Self::Not(p) => p.eval(cols, row).map(|b| !b),
            Self::And(a, b) => match (a.eval(cols, row), b.eval(cols, row)) {
                (Some(false), _) | (_, Some(false)) => Some(false),
                (Some(true), Some(true)) => Some(true),
                _ => None,
            },
            Self::Or(a, b) => match (a.eval(cols, row), b.eval(cols, row)) {
                (Some(true), _) | (_, Some(true)) => Some(true),
                (Some(false), Some(false)) => Some(false),
                _ => None,
            },
        }
    }

    pub fn columns(&self, out: &mut BTreeSet<String>) {
        match self {
            Self::Cmp(c, _, _)
            | Self::Mod(c, _, _)
            | Self::Between(c, _, _)
            | Self::In(c, _)
            | Self::IsNull(c)
            | Self::IsNotNull(c)
            | Self::IsTrue(c)
            | Self::Contains(c, _)
            | Self::IsFalse(c) => {
                out.insert(c.clone());
            }
            Self::Not(p) => p.columns(out),
            Self::And(a, b) | Self::Or(a, b) => {
                a.columns(out);
                b.columns(out);
            }
            Self::True => {}
        }
    }
}

/// Value expressions for UPDATE ... SET col = expr
#[derive(Clone, Debug, Serialize)]
pub enum SetExpr {
    Lit(Lit),
    Null,
    /// col + constant (integer)
    AddI(String, i64),
    /// copy of another column of the same type
    Col(String),
}

impl SetExpr {
    pub fn sql(&self, target_ty: Ty) -> String {
        match self {
            Self::Lit(l) => l.sql(),
            Self::Null => match target_ty {
                Ty::I64 => "CAST(NULL AS BIGINT)".into(),
                Ty::I32 => "CAST(NULL AS INT)".into(),
                Ty::F64 => "CAST(NULL AS DOUBLE)".into(),
                Ty::Str => "CAST(NULL AS STRING)".into(),
                Ty::Bool => "CAST(NULL AS BOOLEAN)".into(),
                _ => "NULL".into(),
            },
            Self::AddI(c, d) => format!("{} + {}", c, d),
            Self::Col(c) => c.clone(),
        }
    }
    pub fn eval(&self, cols: &[ColDef], row: &Row) -> Val {
        let get = |c: &str| -> Val {
            let i = cols.iter().position(|x| x.name == c).expect("column in model");
            row[i].clone()
        };
        match self {
            Self::Lit(l) => l.val(),
            Self::Null => Val::Null,
            Self::AddI(c, d) => match get(c) {
                Val::I(x) => Val::I(x.wrapping_add(*d)),
                _ => Val::Null,
            },
            Self::Col(c) => get(c),
        }
    }
}

// ---------------------------------------------------------------------------
// Generators
// ---------------------------------------------------------------------------

pub const WORDS: [&str; 12] = [
    "alpha", "beta", "gamma", "delta", "lance", "table", "index", "row", "commit", "zeta", "Ünï", "x",
];

/// C20 only: string columns also get longer values (see gen_val)
pub static RICH_STRINGS: std::sync::atomic::AtomicBool = std::sync::atomic::AtomicBool::new(false);

pub fn gen_val(rng: &mut Rng, c: &ColDef, k: i64, img: i64) -> Val {
    if c.name == "k" {
        return Val::I(k);
    }
    if c.name == "img" {
        return Val::I(img);
    }
    if c.nullable && rng.chance(0.15) {
        return Val::Null;
    }
    if c.name == "txt" {
        // small-vocabulary documents (0..6 words), sometimes with punctuation and upper case
        let n = rng.usize(7);
        let mut words: Vec<String> = Vec::new();
        for _ in 0..n {
            let w = WORDS[rng.usize(WORDS.len())];
            words.push(if rng.chance(0.15) { w.to_uppercase() } else { w.to_string() });
        }
        let sep = if rng.chance(0.2) { ", " } else { " " };
        return Val::S(words.join(sep));
    }
    match c.ty {
        Ty::I64 => Val::I(rng.range(-5, 40)),
        Ty::I32 => Val::I(rng.range(-3, 12)),
        Ty::F64 => {
            let base = rng.range(-8, 40) as f64 * 0.5;
            Val::f(base)
        }
        Ty::Str => {
            let r = rng.below(10);
            if r == 0 {
                Val::S(String::new())
            } else if RICH_STRINGS.load(std::sync::atomic::Ordering::Relaxed) && r >= 5 {
                // longer values with many distinct trigrams (n-gram index pages span several batches)
                let a = WORDS[rng.usize(WORDS.len())];
                let b = WORDS[rng.usize(WORDS.len())];
                let mut x = (b'a' + rng.below(26) as u8) as char;
                let mut y = (b'a' + rng.below(26) as u8) as char;
                // sometimes the two halves are joined by characters that yield no alphanumeric trigram
                // (blank, punctuation, accented and CJK text): needles cut across the joint have few or no
                // index tokens, and accented letters are folded to ASCII by the index's analyzer
                let joint = ["", "", "", " ", "-", ", ", "\u{e9}", " \u{e9} ", "\u{65e5}\u{672c}", "_ "][rng.usize(10)];
                if !joint.is_empty() {
                    // few distinct neighbours of the joint, so that a needle cut across it matches stored rows
                    x = (b'a' + (x as u8 - b'a') % 3) as char;
                    y = (b'a' + (y as u8 - b'a') % 3) as char;
                }
                Val::S(format!("{}{}{}{}{}{}", a, x, joint, y, b, rng.below(4)))
            } else {
                Val::S(format!("{}{}", WORDS[rng.usize(WORDS.len())], rng.below(4)))
            }
        }
        Ty::Bool => Val::B(rng.chance(0.5)),
        Ty::Tags => {
            let n = rng.usize(4);
            Val::L((0..n).map(|_| Val::S(WORDS[rng.usize(6)].to_string())).collect())
        }
        // never the zero vector (cosine distance is undefined there and excluded by the property)
        Ty::Vec(d) => Val::L((0..d).map(|_| Val::f((rng.range(-8, 8) as f64) * 0.25 + 0.125)).collect()),
    }
}

pub fn gen_lit(rng: &mut Rng, c: &ColDef) -> Lit {
    match c.ty {
        Ty::I64 | Ty::I32 => Lit::I(rng.range(-6, 42)),
        Ty::F64 => Lit::F(rng.range(-9, 41) as f64 * 0.5),
        Ty::Str => {
            if rng.chance(0.1) {
                Lit::S(String::new())
            } else {
                Lit::S(format!("{}{}", WORDS[rng.usize(WORDS.len())], rng.below(4)))
            }
        }
        Ty::Bool => Lit::B(rng.chance(0.5)),
        _ => Lit::I(0),
    }
}

/// Random predicate over the scalar columns of `cols` (k range given for key predicates).
pub fn gen_pred(rng: &mut Rng, cols: &[ColDef], kmax: i64, depth: u32) -> Pred {
    let scalar: Vec<&ColDef> = cols
        .iter()
        .filter(|c| matches!(c.ty, Ty::I64 | Ty::I32 | Ty::F64 | Ty::Str | Ty::Bool) && c.name != "img")
        .collect();
    if depth > 0 && rng.chance(0.45) {
        let a = gen_pred(rng, cols, kmax, depth - 1);
        return match rng.below(3) {
            0 => Pred::Not(Box::new(a)),
            1 => Pred::And(Box::new(a), Box::new(gen_pred(rng, cols, kmax, depth - 1))),
            _ => Pred::Or(Box::new(a), Box::new(gen_pred(rng, cols, kmax, depth - 1))),
        };
    }
    let c = *rng.pick(&scalar);
    let name = c.name.clone();
    // two-sided range on one column written as two comparisons, either bound first, every
    // strictness combination (scalar indices fold these into one range query)
    if matches!(c.ty, Ty::I64 | Ty::I32 | Ty::F64 | Ty::Str) && rng.chance(0.12) {
        let (lo, hi) = if c.name == "k" {
            let a = rng.range(0, kmax.max(1));
            (Lit::I(a), Lit::I(a + rng.range(0, 12)))
        } else {
            (gen_lit(rng, c), gen_lit(rng, c))
        };
        let upper = Pred::Cmp(name.clone(), if rng.chance(0.5) { Cmp::Lt } else { Cmp::Le }, hi);
        let lower = Pred::Cmp(name, if rng.chance(0.5) { Cmp::Gt } else { Cmp::Ge }, lo);
        return if rng.chance(0.5) { Pred::And(Box::new(upper), Box::new(lower)) } else { Pred::And(Box::new(lower), Box::new(upper)) };
    }
    if c.name == "k" {
        return match rng.below(5) {
            0 => Pred::Mod(name, rng.range(2, 5), rng.range(0, 1)),
            1 => Pred::Cmp(name, *rng.pick(&Cmp::ALL), Lit::I(rng.range(0, kmax.max(1)))),
            2 => {
                let a = rng.range(0, kmax.max(1));
                Pred::Between(name, Lit::I(a), Lit::I(a + rng.range(0, 12)))
            }
            3 => Pred::In(name, (0..rng.range(1, 4)).map(|_| Lit::I(rng.range(0, kmax.max(1)))).collect()),
            _ => Pred::Cmp(name, if rng.chance(0.5) { Cmp::Lt } else { Cmp::Ge }, Lit::I(rng.range(0, kmax.max(1)))),
        };
    }
    match c.ty {
        Ty::Bool => match rng.below(5) {
            0 => Pred::IsTrue(name),
            1 => Pred::IsFalse(name),
            2 => Pred::IsNull(name),
            3 => Pred::IsNotNull(name),
            _ => Pred::Cmp(name, if rng.chance(0.5) { Cmp::Eq } else { Cmp::Ne }, Lit::B(rng.chance(0.5))),
        },
        Ty::Str if RICH_STRINGS.load(std::sync::atomic::Ordering::Relaxed) && rng.chance(0.35) => {
            // a substring of a value that may exist: 3-5 characters cut out of a generated string
            let src: Vec<char> = match gen_val(rng, c, 0, 0) {
                Val::S(x) if x.chars().count() >= 3 => x.chars().collect(),
                _ => "alpha0".chars().collect(),
            };
            let n = (rng.range(3, 5) as usize).min(src.len());
            let start = rng.usize(src.len() - n + 1);
            // half of the needles taken from a value with a non-alphanumeric joint are cut across it
            // (3 characters around the joint: no alphanumeric trigram at all)
            if let Some(j) = src.iter().position(|ch| !ch.is_ascii_alphanumeric()) {
                if j >= 1 && j + 2 <= src.len() && rng.chance(0.5) {
                    return Pred::Contains(name, src[j - 1..j + 2].iter().collect());
                }
            }
            Pred::Contains(name, src[start..start + n].iter().collect())
        }
        _ => match rng.below(8) {
            0 => Pred::IsNull(name),
            1 => Pred::IsNotNull(name),
            2 => {
                let a = gen_lit(rng, c);
                let b = gen_lit(rng, c);
                Pred::Between(name, a, b)
            }
            3 => Pred::In(name, (0..rng.range(1, 4)).map(|_| gen_lit(rng, c)).collect()),
            _ => Pred::Cmp(name, *rng.pick(&Cmp::ALL), gen_lit(rng, c)),
        },
    }
}

// ---------------------------------------------------------------------------
// Model-side operations
// ---------------------------------------------------------------------------

#[derive(Clone, Copy, Debug, PartialEq, Eq, Serialize)]
pub enum WhenMatched {
    UpdateAll,
    DoNothing,
    Fail,
}
#[derive(Clone, Copy, Debug, PartialEq, Eq, Serialize)]
pub enum WhenNotMatched {
    InsertAll,
    DoNothing,
}
#[derive(Clone, Debug, Serialize)]
pub enum BySource {
    Keep,
    Delete,
    DeleteIf(Pred),
}

impl TableState {
    pub fn apply_delete(&mut self, p: &Pred) -> usize {
        let cols = self.cols.clone();
        let before = self.rows.len();
        self.rows.retain(|r| p.eval(&cols, r) != Some(true));
        before - self.rows.len()
    }

    /// UPDATE: returns number of rows updated. Updated rows move to the end
    /// (order no longer exact).
    pub fn apply_update(&mut self, sets: &[(String, SetExpr)], p: &Pred) -> usize {
        let cols = self.cols.clone();
        let mut n = 0;
        let mut kept = Vec::new();
        let mut moved = Vec::new();
        for r in self.rows.drain(..) {
            if p.eval(&cols, &r) == Some(true) {
                let mut nr = r.clone();
                for (c, e) in sets {
                    let i = cols.iter().position(|x| &x.name == c).unwrap();
                    nr[i] = e.eval(&cols, &r);
                }
                moved.push(nr);
                n += 1;
            } else {
                kept.push(r);
            }
        }
        if n > 0 {
            self.order_exact = false;
        }
        kept.extend(moved);
        self.rows = kept;
        n
    }

    /// SQL MERGE on key column `k`. `src` rows are over `src_cols` (subset of table
    /// columns, must contain k). Returns Err(()) if duplicate source match would
    /// update the same target row (must fail without effect).
    pub fn apply_merge(
        &mut self,
        src_cols: &[ColDef],
        src: &[Row],
        wm: WhenMatched,
        wnm: WhenNotMatched,
        by_source: &BySource,
    ) -> Result<(usize, usize, usize), String> {
        let cols = self.cols.clone();
        let ki = self.col("k").unwrap();
        let ski = src_cols.iter().position(|c| c.name == "k").unwrap();
        // map key -> source rows
        let mut by_key: BTreeMap<i64, Vec<usize>> = BTreeMap::new();
        for (i, r) in src.iter().enumerate() {
            if let Val::I(k) = r[ski] {
                by_key.entry(k).or_default().push(i);
            }
        }
        let target_keys: BTreeSet<i64> = self.rows.iter().filter_map(|r| r[ki].as_i64()).collect();
        let mut new_rows: Vec<Row> = Vec::new();
        let mut updated = 0;
        let mut deleted = 0;
        let mut out: Vec<Row> = Vec::new();
        let mut upd_rows: Vec<Row> = Vec::new();
        for r in self.rows.iter() {
            let k = r[ki].as_i64();
            let m = k.and_then(|k| by_key.get(&k));
            match m {
                Some(srcs) => match wm {
                    WhenMatched::DoNothing => out.push(r.clone()),
                    WhenMatched::Fail => return Err("matched row with when_matched=Fail".into()),
                    WhenMatched::UpdateAll => {
                        if srcs.len() > 1 {
                            return Err("ambiguous merge: more than one source row matches a target row".into());
                        }
                        let s = &src[srcs[0]];
                        let mut nr = r.clone();
                        for (si, sc) in src_cols.iter().enumerate() {
                            let ti = cols.iter().position(|c| c.name == sc.name).unwrap();
                            nr[ti] = s[si].clone();
                        }
                        upd_rows.push(nr);
                        updated += 1;
                    }
                },
                None => match by_source {
                    BySource::Keep => out.push(r.clone()),
                    BySource::Delete => deleted += 1,
                    BySource::DeleteIf(p) => {
                        if p.eval(&cols, r) == Some(true) {
                            deleted += 1
                        } else {
                            out.push(r.clone())
                        }
                    }
                },
            }
        }
        let mut inserted = 0;
        if wnm == WhenNotMatched::InsertAll {
            for s in src.iter() {
                let k = s[ski].as_i64();
                let matched = k.map(|k| target_keys.contains(&k)).unwrap_or(false);
                if !matched {
                    // NULL keys never match -> inserted
                    let mut nr: Row = vec![Val::Null; cols.len()];
                    for (si, sc) in src_cols.iter().enumerate() {
                        let ti = cols.iter().position(|c| c.name == sc.name).unwrap();
                        nr[ti] = s[si].clone();
                    }
                    new_rows.push(nr);
                    inserted += 1;
                }
            }
        }
        if updated + inserted + deleted > 0 {
            self.order_exact = false;
        }
        out.extend(upd_rows);
        out.extend(new_rows);
        self.rows = out;
        Ok((inserted, updated, deleted))
    }
}

/// True when the SQL text holds a `contains(col, 'needle')` whose needle is at least 3 bytes long and has no
/// three consecutive characters that the n-gram index's analyzer (lower-case, ASCII folding, alphanumeric
/// trigrams) turns into a token. Latin letters with diacritics count as alphanumeric (they are folded).
pub fn has_trigramless_needle(sql: &str) -> bool {
    let mut rest = sql;
    while let Some(i) = rest.find("contains(") {
        rest = &rest[i + 9..];
        let Some(q) = rest.find(", '") else { continue };
        let body = &rest[q + 3..];
        let Some(e) = body.find("')") else { continue };
        let needle = &body[..e];
        if needle.len() >= 3 {
            let mut run = 0;
            let mut best = 0;
            for ch in needle.chars() {
                if ch.is_ascii_alphanumeric() || ('\u{c0}'..='\u{24f}').contains(&ch) {
                    run += 1;
                    best = best.max(run);
                } else {
                    run = 0;
                }
            }
            if best < 3 {
                return true;
            }
        }
    }
    false
}

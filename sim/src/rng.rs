//! Seeded PRNG owned by the simulator (xoshiro256** seeded through splitmix64).
//! Never touches OS randomness, never used in logging paths.

#[derive(Clone, Debug)]
pub struct Rng {
    s: [u64; 4],
}

pub fn splitmix(x: &mut u64) -> u64 {
    *x = x.wrapping_add(0x9E3779B97F4A7C15);
    let mut z = *x;
    z = (z ^ (z >> 30)).wrapping_mul(0xBF58476D1CE4E5B9);
    z = (z ^ (z >> 27)).wrapping_mul(0x94D049BB133111EB);
    z ^ (z >> 31)
}

/// Mix several integers into one seed.
pub fn mix(parts: &[u64]) -> u64 {
    let mut h = 0x243F6A8885A308D3u64;
    for p in parts {
        let mut x = h ^ p.wrapping_mul(0x9E3779B97F4A7C15);
        h = splitmix(&mut x);
    }
    h
}

pub fn hash_str(s: &str) -> u64 {
    let mut h = 0xcbf29ce484222325u64;
    for b in s.bytes() {
        h ^= b as u64;
        h = h.wrapping_mul(0x100000001b3);
    }
    h
}

impl Rng {
    pub fn new(seed: u64) -> Self {
        let mut x = seed;
        let s = [
            splitmix(&mut x),
            splitmix(&mut x),
            splitmix(&mut x),
            splitmix(&mut x),
        ];
        Self { s }
    }
    pub fn fork(&mut self, tag: u64) -> Self {
        let a = self.next_u64();
        Self::new(mix(&[a, tag]))
    }
    pub fn next_u64(&mut self) -> u64 {
        let r = self.s[1].wrapping_mul(5).rotate_left(7).wrapping_mul(9);
        let t = self.s[1] << 17;
        self.s[2] ^= self.s[0];
        self.s[3] ^= self.s[1];
        self.s[1] ^= self.s[2];
        self.s[0] ^= self.s[3];
        self.s[2] ^= t;
        self.s[3] = self.s[3].rotate_left(45);
        r
    }
    /// uniform in 0..n (n>0)
    pub fn below(&mut self, n: u64) -> u64 {
        if n <= 1 {
            return 0;
        }
        self.next_u64() % n
    }
    pub fn usize(&mut self, n: usize) -> usize {
        self.below(n as u64) as usize
    }
    /// inclusive range
    pub fn range(&mut self, lo: i64, hi: i64) -> i64 {
        if hi <= lo {
            return lo;
        }
        lo + self.below((hi - lo + 1) as u64) as i64
    }
    pub fn chance(&mut self, p: f64) -> bool {
        ((self.next_u64() >> 11) as f64) / ((1u64 << 53) as f64) < p
    }
    pub fn f64(&mut self) -> f64 {
        ((self.next_u64() >> 11) as f64) / ((1u64 << 53) as f64)
    }
    pub fn pick<'a, T>(&mut self, xs: &'a [T]) -> &'a T {
        &xs[self.usize(xs.len())]
    }
    pub fn shuffle<T>(&mut self, xs: &mut [T]) {
        for i in (1..xs.len()).rev() {
            let j = self.usize(i + 1);
            xs.swap(i, j);
        }
    }
    /// pick index by weights
    pub fn weighted(&mut self, w: &[u32]) -> usize {
        let tot: u64 = w.iter().map(|x| *x as u64).sum();
        if tot == 0 {
            return 0;
        }
        let mut r = self.below(tot);
        for (i, x) in w.iter().enumerate() {
            if r < *x as u64 {
                return i;
            }
            r -= *x as u64;
        }
        w.len() - 1
    }
}

//! lancesim: deterministic simulation of lancedb/lance with fault injection.
//!
//!   lancesim run   --engine E --prop Cxx --seed N [--skip a,b,c] [--opt k=v ...]
//!   lancesim batch --engine E --prop Cxx --seed-base S --start I --stride K --count N --budget-s T --out FILE
//!
//! `run` executes one simulated run in a forked child (fresh process state, reseeded
//! OS-randomness shim, fresh thread) and prints its JSON result. `batch` does the
//! same for many run indices and appends one JSON line per run to FILE.

mod e1;
mod e1conc;
mod e1crash;
mod e1maint;
mod e1refs;
mod e1x;
mod e1y;
mod lineage;
mod driver;
mod e2;
mod e3;
mod e4;
mod e5;
mod e6;
mod handlers;
mod model;
mod rng;
mod runres;
mod table;
mod world;

use std::collections::BTreeMap;
use std::io::{Read, Write};

use runres::{RunCfg, RunResult};

fn parse_args() -> (String, BTreeMap<String, String>, Vec<(String, String)>) {
    let args: Vec<String> = std::env::args().collect();
    if args.len() < 2 {
        eprintln!("usage: lancesim <run|batch> ...");
        std::process::exit(2);
    }
    let cmd = args[1].clone();
    let mut kv = BTreeMap::new();
    let mut opts = Vec::new();
    let mut i = 2;
    while i < args.len() {
        let a = &args[i];
        if a == "--opt" {
            let v = args.get(i + 1).cloned().unwrap_or_default();
            if let Some((k, val)) = v.split_once('=') {
                opts.push((k.to_string(), val.to_string()));
            }
            i += 2;
        } else if let Some(k) = a.strip_prefix("--") {
            let v = args.get(i + 1).cloned().unwrap_or_default();
            kv.insert(k.to_string(), v);
            i += 2;
        } else {
            eprintln!("unexpected argument {}", a);
            std::process::exit(2);
        }
    }
    (cmd, kv, opts)
}

fn dispatch(cfg: RunCfg) -> RunResult {
    // fresh thread => fresh thread-local RandomState keys / ThreadRng, seeded from the shim
    let handle = std::thread::Builder::new()
        .stack_size(64 << 20)
        .spawn(move || {
            let rt = tokio::runtime::Builder::new_current_thread()
                .enable_time()
                .start_paused(std::env::var("VERIF_REALTIME").is_err())
                .build()
                .unwrap();
            lance_core::utils::tokio::VERIF_INLINE_CPU.store(true, std::sync::atomic::Ordering::SeqCst);
            let engine = cfg.engine.clone();
            rt.block_on(async move {
                match engine.as_str() {
                    "e1" => e1::run(cfg).await,
                    "e2" => e2::run(cfg).await,
                    "e3" => e3::run(cfg).await,
                    "e4" => e4::run(cfg).await,
                    "e5" => e5::run(cfg).await,
                    "e6" => e6::run(cfg).await,
                    other => RunResult::harness_error(&cfg, format!("unknown engine {}", other)),
                }
            })
        })
        .unwrap();
    match handle.join() {
        Ok(r) => r,
        Err(_) => panic!("run thread panicked"),
    }
}

/// Run one configuration in a forked child; returns the JSON line it produced.
fn run_forked(cfg: &RunCfg, watchdog_s: u64) -> String {
    let mut fds = [0i32; 2];
    unsafe {
        if libc::pipe(fds.as_mut_ptr()) != 0 {
            panic!("pipe failed");
        }
    }
    let pid = unsafe { libc::fork() };
    if pid < 0 {
        panic!("fork failed");
    }
    if pid == 0 {
        // child
        unsafe { libc::close(fds[0]) };
        world::shim_reseed(rng::mix(&[cfg.seed, 0x5eed]));
        unsafe { libc::alarm(watchdog_s as u32) };
        let cfg2 = cfg.clone();
        let res = std::panic::catch_unwind(move || dispatch(cfg2));
        let line = match res {
            Ok(r) => serde_json::to_string(&r).unwrap(),
            Err(_) => serde_json::to_string(&RunResult::harness_error(cfg, "panic outside run".into())).unwrap(),
        };
        let mut f = unsafe { <std::fs::File as std::os::fd::FromRawFd>::from_raw_fd(fds[1]) };
        let _ = f.write_all(line.as_bytes());
        let _ = f.flush();
        drop(f);
        unsafe { libc::_exit(0) };
    }
    unsafe { libc::close(fds[1]) };
    let mut f = unsafe { <std::fs::File as std::os::fd::FromRawFd>::from_raw_fd(fds[0]) };
    let mut out = String::new();
    let _ = f.read_to_string(&mut out);
    let mut status = 0i32;
    unsafe { libc::waitpid(pid, &mut status, 0) };
    if out.is_empty() {
        // child died without a result: abort / signal / watchdog
        let sig = if libc::WIFSIGNALED(status) { libc::WTERMSIG(status) } else { 0 };
        let r = if sig == libc::SIGALRM {
            RunResult::harness_error(cfg, format!("watchdog: run exceeded {} s real time", watchdog_s))
        } else {
            RunResult::crashed(cfg, format!("process died: status={} signal={}", status, sig))
        };
        out = serde_json::to_string(&r).unwrap();
    }
    out
}

fn main() {
    let (cmd, kv, opts) = parse_args();
    let engine = kv.get("engine").cloned().unwrap_or_else(|| "e1".into());
    let prop = kv.get("prop").cloned().unwrap_or_else(|| "C11".into());
    let tier = kv.get("tier").cloned().unwrap_or_else(|| "quick".into());
    let watchdog: u64 = kv.get("watchdog-s").and_then(|s| s.parse().ok()).unwrap_or(180);
    let skip: Vec<u64> = kv
        .get("skip")
        .map(|s| s.split(',').filter(|x| !x.is_empty()).filter_map(|x| x.parse().ok()).collect())
        .unwrap_or_default();
    let require_shim = kv.get("no-shim").is_none();
    if require_shim && !world::shim_present() {
        eprintln!("lancesim: libdetrand.so is not preloaded (use the ./check driver or --no-shim 1)");
        std::process::exit(2);
    }
    // silence panic messages of runs unless asked
    let verbose = std::env::var("VERIF_VERBOSE").is_ok();
    std::panic::set_hook(Box::new(move |info| {
        if let Some(l) = info.location() {
            *runres::LAST_PANIC_LOC.lock().unwrap() = format!("{}:{}", l.file().rsplit("/rust/").next().unwrap_or(l.file()), l.line());
        }
        if verbose {
            eprintln!("panic: {}", info);
        }
    }));
    match cmd.as_str() {
        "run" => {
            let seed: u64 = kv.get("seed").and_then(|s| s.parse().ok()).unwrap_or(1);
            let cfg = RunCfg { engine, prop, seed, tier, skip, opts, max_steps: kv.get("max-steps").and_then(|s| s.parse().ok()), trace: kv.get("trace").is_some() };
            let line = if kv.get("no-fork").is_some() {
                world::shim_reseed(rng::mix(&[cfg.seed, 0x5eed]));
                serde_json::to_string(&dispatch(cfg)).unwrap()
            } else {
                run_forked(&cfg, watchdog)
            };
            println!("{}", line);
        }
        "batch" => {
            let base: u64 = kv.get("seed-base").and_then(|s| s.parse().ok()).unwrap_or(1);
            let start: u64 = kv.get("start").and_then(|s| s.parse().ok()).unwrap_or(0);
            let stride: u64 = kv.get("stride").and_then(|s| s.parse().ok()).unwrap_or(1);
            let count: u64 = kv.get("count").and_then(|s| s.parse().ok()).unwrap_or(10);
            let budget: f64 = kv.get("budget-s").and_then(|s| s.parse().ok()).unwrap_or(1e9);
            let out = kv.get("out").cloned().unwrap_or_else(|| "/dev/stdout".into());
            let mut f = std::fs::OpenOptions::new().create(true).append(true).open(&out).expect("open out");
            let t0 = std::time::Instant::now();
            let mut i = start;
            let mut done = 0;
            while done < count && t0.elapsed().as_secs_f64() < budget {
                let seed = rng::mix(&[base, rng::hash_str(&prop), i]);
                let cfg = RunCfg { engine: engine.clone(), prop: prop.clone(), seed, tier: tier.clone(), skip: vec![], opts: opts.clone(), max_steps: None, trace: false };
                let line = run_forked(&cfg, watchdog);
                let _ = writeln!(f, "{}", line);
                i += stride;
                done += 1;
            }
        }
        _ => {
            eprintln!("unknown command {}", cmd);
            std::process::exit(2);
        }
    }
}

//! Table-level operations through lance's public API, with their model counterparts.

use std::collections::BTreeMap;
use std::sync::Arc;
use std::time::Duration;

use arrow_array::{RecordBatch, RecordBatchIterator};
use futures::TryStreamExt;
use lance_io::stream::RecordBatchStream;
use lance::dataset::builder::DatasetBuilder;
use lance::dataset::optimize::{compact_files, CompactionOptions};
use lance::dataset::{
    InsertBuilder, MergeInsertBuilder, NewColumnTransform, ReadParams, UpdateBuilder, WhenMatched as LWhenMatched,
    WhenNotMatched as LWhenNotMatched, WhenNotMatchedBySource as LBySource, WriteMode, WriteParams,
};
use lance_index::DatasetIndexExt;
use lance::Dataset;
use lance_core::{Error, Result};
use lance_file::version::LanceFileVersion;
use lance_index::optimize::OptimizeOptions;
use lance_index::scalar::{BuiltinIndexType, ScalarIndexParams};
use lance_index::IndexType;
use lance_table::io::commit::CommitHandler;
use serde::Serialize;

use crate::handlers::{make_handler, HandlerKind};
use crate::model::*;
use crate::world::{Party, World};

/// Everything one party needs to operate on one table.
#[derive(Clone)]
pub struct Ctx {
    pub party: Arc<Party>,
    pub uri: String,
    pub hk: HandlerKind,
    pub handler: Arc<dyn CommitHandler>,
    pub stable_row_ids: bool,
    pub v2_paths: bool,
    pub storage_version: LanceFileVersion,
    /// WriteParams::max_rows_per_group (only the legacy file format cuts row groups by it)
    pub rows_per_group: usize,
}

impl Ctx {
    pub fn new(party: Arc<Party>, uri: &str, hk: HandlerKind) -> Self {
        let handler = make_handler(hk, &party.w, party.id);
        Self {
            party,
            uri: uri.to_string(),
            hk,
            handler,
            stable_row_ids: false,
            v2_paths: true,
            storage_version: LanceFileVersion::V2_0,
            rows_per_group: 1024,
        }
    }
    pub fn for_party(&self, party: Arc<Party>) -> Self {
        let handler = make_handler(self.hk, &party.w, party.id);
        Self {
            party,
            handler,
            uri: self.uri.clone(),
            hk: self.hk,
            stable_row_ids: self.stable_row_ids,
            v2_paths: self.v2_paths,
            storage_version: self.storage_version,
            rows_per_group: self.rows_per_group,
        }
    }
    pub fn world(&self) -> &Arc<World> {
        &self.party.w
    }
    pub fn read_params(&self) -> ReadParams {
        let mut rp = ReadParams::default();
        rp.session(self.party.session.clone());
        rp.commit_handler = Some(self.handler.clone());
        rp
    }
    pub fn builder(&self) -> DatasetBuilder {
        DatasetBuilder::from_uri(&self.uri)
            .with_read_params(self.read_params())
            .with_session(self.party.session.clone())
            .with_commit_handler(self.handler.clone())
    }
    pub async fn open(&self) -> Result<Dataset> {
        self.builder().load().await
    }
    pub async fn open_version(&self, v: u64) -> Result<Dataset> {
        self.builder().with_version(v).load().await
    }
    pub fn write_params(&self, mode: WriteMode, max_rows_per_file: usize) -> WriteParams {
        WriteParams {
            mode,
            max_rows_per_file: max_rows_per_file.max(1),
            max_rows_per_group: self.rows_per_group.max(1),
            commit_handler: Some(self.handler.clone()),
            session: Some(self.party.session.clone()),
            enable_stable_row_ids: self.stable_row_ids,
            enable_v2_manifest_paths: self.v2_paths,
            data_storage_version: Some(self.storage_version),
            // no implicit auto-cleanup configuration: cleanup is an explicit, modelled operation
            auto_cleanup: None,
            ..Default::default()
        }
    }
    pub async fn create(&self, cols: &[ColDef], rows: &[Row], per_file: usize) -> Result<Dataset> {
        let batch = rows_to_batch(cols, rows);
        let params = self.write_params(WriteMode::Create, per_file);
        InsertBuilder::new(self.uri.as_str()).with_params(&params).execute(vec![batch]).await
    }
}

#[derive(Clone, Debug, Serialize)]
pub enum IdxKind {
    BTree,
    Bitmap,
    LabelList,
    ZoneMap,
    BloomFilter,
    NGram,
    Inverted,
}

impl IdxKind {
    pub fn index_type(&self) -> IndexType {
        match self {
            Self::BTree => IndexType::BTree,
            Self::Bitmap => IndexType::Bitmap,
            Self::LabelList => IndexType::LabelList,
            Self::ZoneMap => IndexType::ZoneMap,
            Self::BloomFilter => IndexType::BloomFilter,
            Self::NGram => IndexType::NGram,
            Self::Inverted => IndexType::Inverted,
        }
    }
    pub fn builtin(&self) -> BuiltinIndexType {
        match self {
            Self::BTree => BuiltinIndexType::BTree,
            Self::Bitmap => BuiltinIndexType::Bitmap,
            Self::LabelList => BuiltinIndexType::LabelList,
            Self::ZoneMap => BuiltinIndexType::ZoneMap,
            Self::BloomFilter => BuiltinIndexType::BloomFilter,
            Self::NGram => BuiltinIndexType::NGram,
            Self::Inverted => BuiltinIndexType::Inverted,
        }
    }
}

#[derive(Clone, Debug, Serialize)]
pub enum Op {
    Append { rows: Vec<Row>, per_file: usize, batches: usize },
    Overwrite { rows: Vec<Row>, per_file: usize },
    Delete { pred: Pred },
    Update { sets: Vec<(String, SetExpr)>, pred: Pred },
    Merge {
        src_cols: Vec<String>,
        rows: Vec<Row>,
        wm: WhenMatched,
        wnm: WhenNotMatched,
        by_source: BySource,
        use_index: bool,
    },
    Compact { target_rows: usize, materialize: bool, threshold: f32, defer_remap: bool },
    CreateIndex { col: String, kind: IdxKind, name: String, replace: bool, params: Option<String> },
    DropIndex { name: String },
    OptimizeIndices { num_to_merge: Option<usize> },
    AddColSql { name: String, ty: Ty, from: String, add: i64 },
    AddColNull { name: String, ty: Ty },
    DropCol { name: String },
    RenameCol { from: String, to: String },
    /// alter_columns(cast_to): the column keeps its name and position, its data is rewritten
    CastCol { name: String, to: Ty },
    /// Dataset::merge: left-join a new column `name` = k * mul + 1 for the listed keys (NULL elsewhere)
    MergeCols { name: String, keys: Vec<i64>, mul: i64 },
    UpdateConfig { key: String, value: Option<String> },
    Restore { version: u64 },
    CreateVectorIndex { partitions: usize, cosine: bool },
    CreateFtsIndex,
}

impl Op {
    pub fn kind(&self) -> &'static str {
        match self {
            Self::Append { .. } => "append",
            Self::Overwrite { .. } => "overwrite",
            Self::Delete { .. } => "delete",
            Self::Update { .. } => "update",
            Self::Merge { src_cols, .. } => {
                if src_cols.len() == 3 && src_cols[2] == "v" {
                    "merge_partial"
                } else {
                    "merge"
                }
            }
            Self::Compact { .. } => "compact",
            Self::CreateIndex { .. } => "create_index",
            Self::DropIndex { .. } => "drop_index",
            Self::OptimizeIndices { .. } => "optimize_indices",
            Self::AddColSql { .. } => "add_col_sql",
            Self::AddColNull { .. } => "add_col_null",
            Self::DropCol { .. } => "drop_col",
            Self::RenameCol { .. } => "rename_col",
            Self::CastCol { .. } => "cast_col",
            Self::MergeCols { .. } => "merge_cols",
            Self::UpdateConfig { .. } => "update_config",
            Self::Restore { .. } => "restore",
            Self::CreateVectorIndex { .. } => "create_vector_index",
            Self::CreateFtsIndex => "create_fts_index",
        }
    }
    /// short printable form (data elided)
    pub fn brief(&self) -> String {
        match self {
            Self::Append { rows, per_file, batches } => format!("append({} rows, per_file={}, batches={})", rows.len(), per_file, batches),
            Self::Overwrite { rows, per_file } => format!("overwrite({} rows, per_file={})", rows.len(), per_file),
            Self::Delete { pred } => format!("delete({})", pred.sql()),
            Self::Update { sets, pred } => format!(
                "update(set {} where {})",
                sets.iter().map(|(c, e)| format!("{}={}", c, e.sql(Ty::I64))).collect::<Vec<_>>().join(", "),
                pred.sql()
            ),
            Self::Merge { src_cols, rows, wm, wnm, by_source, use_index } => format!(
                "merge_insert(cols={:?}, {} rows, keys={:?}, {:?}, {:?}, {}, use_index={})",
                src_cols,
                rows.len(),
                rows.iter().map(|r| r[0].show()).collect::<Vec<_>>(),
                wm,
                wnm,
                match by_source {
                    BySource::Keep => "Keep".to_string(),
                    BySource::Delete => "Delete".to_string(),
                    BySource::DeleteIf(p) => format!("DeleteIf({})", p.sql()),
                },
                use_index
            ),
            Self::Compact { target_rows, materialize, threshold, defer_remap } => {
                format!("compact(target={}, mat={}, thr={}, defer={})", target_rows, materialize, threshold, defer_remap)
            }
            Self::CreateIndex { col, kind, name, replace, .. } => format!("create_index({}, {:?}, {}, replace={})", col, kind, name, replace),
            Self::DropIndex { name } => format!("drop_index({})", name),
            Self::OptimizeIndices { num_to_merge } => format!("optimize_indices({:?})", num_to_merge),
            Self::AddColSql { name, from, add, .. } => format!("add_column({} = {} + {})", name, from, add),
            Self::AddColNull { name, ty } => format!("add_column_null({}: {:?})", name, ty),
            Self::DropCol { name } => format!("drop_column({})", name),
            Self::RenameCol { from, to } => format!("rename_column({} -> {})", from, to),
            Self::CastCol { name, to } => format!("alter_column({} cast to {:?})", name, to),
            Self::MergeCols { name, keys, mul } => format!("merge_columns({} = k * {} + 1 for {} keys, join on k)", name, mul, keys.len()),
            Self::UpdateConfig { key, value } => format!("update_config({}={:?})", key, value),
            Self::Restore { version } => format!("restore({})", version),
            Self::CreateVectorIndex { partitions, cosine } => format!("create_index(vec, IVF_FLAT, partitions={}, metric={})", partitions, if *cosine { "cosine" } else { "l2" }),
            Self::CreateFtsIndex => "create_index(txt, Inverted)".to_string(),
        }
    }
}

fn split_batches(cols: &[ColDef], rows: &[Row], batches: usize) -> Vec<RecordBatch> {
    let n = batches.max(1).min(rows.len().max(1));
    let mut out = Vec::new();
    let chunk = (rows.len() + n - 1) / n.max(1);
    if rows.is_empty() {
        return vec![rows_to_batch(cols, rows)];
    }
    for c in rows.chunks(chunk.max(1)) {
        out.push(rows_to_batch(cols, c));
    }
    out
}

/// Execute one operation on lance. `ds` is updated to the new version on success.
pub async fn exec_op(ctx: &Ctx, ds: &mut Dataset, st: &TableState, op: &Op) -> Result<()> {
    match op {
        Op::Append { rows, per_file, batches } => {
            let params = ctx.write_params(WriteMode::Append, *per_file);
            let bs = split_batches(&st.cols, rows, *batches);
            let new = InsertBuilder::new(Arc::new(ds.clone())).with_params(&params).execute(bs).await?;
            *ds = new;
            Ok(())
        }
        Op::Overwrite { rows, per_file } => {
            let params = ctx.write_params(WriteMode::Overwrite, *per_file);
            let bs = vec![rows_to_batch(&st.cols, rows)];
            let new = InsertBuilder::new(Arc::new(ds.clone())).with_params(&params).execute(bs).await?;
            *ds = new;
            Ok(())
        }
        Op::Delete { pred } => ds.delete(&pred.sql()).await,
        Op::Update { sets, pred } => {
            let mut b = UpdateBuilder::new(Arc::new(ds.clone())).update_where(&pred.sql())?;
            for (c, e) in sets {
                let ty = st.cols.iter().find(|x| &x.name == c).map(|x| x.ty).unwrap_or(Ty::I64);
                b = b.set(c, &e.sql(ty))?;
            }
            let res = b.build()?.execute().await?;
            *ds = res.new_dataset.as_ref().clone();
            Ok(())
        }
        Op::Merge { src_cols, rows, wm, wnm, by_source, use_index } => {
            let cols: Vec<ColDef> = src_cols.iter().map(|n| st.cols.iter().find(|c| &c.name == n).unwrap().clone()).collect();
            let batch = rows_to_batch(&cols, rows);
            let mut b = MergeInsertBuilder::try_new(Arc::new(ds.clone()), vec!["k".to_string()])?;
            b.when_matched(match wm {
                WhenMatched::UpdateAll => LWhenMatched::UpdateAll,
                WhenMatched::DoNothing => LWhenMatched::DoNothing,
                WhenMatched::Fail => LWhenMatched::Fail,
            });
            b.when_not_matched(match wnm {
                WhenNotMatched::InsertAll => LWhenNotMatched::InsertAll,
                WhenNotMatched::DoNothing => LWhenNotMatched::DoNothing,
            });
            b.when_not_matched_by_source(match by_source {
                BySource::Keep => LBySource::Keep,
                BySource::Delete => LBySource::Delete,
                BySource::DeleteIf(p) => LBySource::delete_if(ds, &p.sql())?,
            });
            b.use_index(*use_index);
            let job = b.try_build()?;
            let schema = batch.schema();
            let reader = RecordBatchIterator::new(vec![Ok(batch)], schema);
            let (new, _stats) = job.execute_reader(Box::new(reader)).await?;
            *ds = new.as_ref().clone();
            Ok(())
        }
        Op::Compact { target_rows, materialize, threshold, defer_remap } => {
            let opts = CompactionOptions {
                target_rows_per_fragment: *target_rows,
                max_rows_per_group: 1024,
                materialize_deletions: *materialize,
                materialize_deletions_threshold: *threshold,
                num_threads: Some(1),
                defer_index_remap: *defer_remap,
                ..Default::default()
            };
            compact_files(ds, opts, None).await?;
            Ok(())
        }
        Op::CreateIndex { col, kind, name, replace, params } => {
            let mut p = ScalarIndexParams::for_builtin(kind.builtin());
            p.params = params.clone();
            if matches!(kind, IdxKind::Inverted) {
                let ip = lance_index::scalar::InvertedIndexParams::default()
                    .stem(false)
                    .remove_stop_words(false)
                    .ascii_folding(false)
                    .lower_case(true)
                    .with_position(true);
                ds.create_index(&[col.as_str()], IndexType::Inverted, Some(name.clone()), &ip, *replace).await
            } else {
                ds.create_index(&[col.as_str()], kind.index_type(), Some(name.clone()), &p, *replace).await
            }
        }
        Op::DropIndex { name } => ds.drop_index(name).await,
        Op::OptimizeIndices { num_to_merge } => {
            let mut o = OptimizeOptions::default();
            if let Some(n) = num_to_merge {
                o = OptimizeOptions::merge(*n);
            }
            ds.optimize_indices(&o).await
        }
        Op::AddColSql { name, from, add, .. } => {
            ds.add_columns(
                NewColumnTransform::SqlExpressions(vec![(name.clone(), format!("{} + {}", from, add))]),
                None,
                None,
            )
            .await
        }
        Op::AddColNull { name, ty } => {
            let schema = arrow_schema::Schema::new(vec![arrow_schema::Field::new(name, ty.arrow(), true)]);
            ds.add_columns(NewColumnTransform::AllNulls(Arc::new(schema)), None, None).await
        }
        Op::DropCol { name } => ds.drop_columns(&[name.as_str()]).await,
        Op::RenameCol { from, to } => {
            ds.alter_columns(&[lance::dataset::ColumnAlteration::new(from.clone()).rename(to.clone())]).await
        }
        Op::MergeCols { name, keys, mul } => {
            let schema = Arc::new(arrow_schema::Schema::new(vec![
                arrow_schema::Field::new("k", arrow_schema::DataType::Int64, false),
                arrow_schema::Field::new(name.as_str(), arrow_schema::DataType::Int64, true),
            ]));
            let kcol = arrow_array::Int64Array::from(keys.clone());
            let vcol = arrow_array::Int64Array::from(keys.iter().map(|k| k * mul + 1).collect::<Vec<i64>>());
            let batch = RecordBatch::try_new(schema.clone(), vec![Arc::new(kcol), Arc::new(vcol)])?;
            let reader = RecordBatchIterator::new(vec![Ok(batch)], schema);
            ds.merge(reader, "k", "k").await
        }
        Op::CastCol { name, to } => {
            ds.alter_columns(&[lance::dataset::ColumnAlteration::new(name.clone()).cast_to(to.arrow())]).await
        }
        Op::UpdateConfig { key, value } => {
            match value {
                Some(v) => {
                    ds.update_config([(key.as_str(), v.as_str())]).await?;
                }
                None => {
                    ds.delete_config_keys(&[key.as_str()]).await?;
                }
            }
            Ok(())
        }
        Op::Restore { version } => {
            let mut old = ds.checkout_version(*version).await?;
            old.restore().await?;
            *ds = old;
            Ok(())
        }
        Op::CreateVectorIndex { partitions, cosine } => {
            let metric = if *cosine { lance_linalg::distance::MetricType::Cosine } else { lance_linalg::distance::MetricType::L2 };
            let params = lance::index::vector::VectorIndexParams::ivf_flat(*partitions, metric);
            ds.create_index(&["vec"], IndexType::Vector, Some("vec_idx".to_string()), &params, true).await
        }
        Op::CreateFtsIndex => {
            let ip = lance_index::scalar::InvertedIndexParams::default().stem(false).remove_stop_words(false).ascii_folding(false).lower_case(true).with_position(true);
            ds.create_index(&["txt"], IndexType::Inverted, Some("txt_idx".to_string()), &ip, true).await
        }
    }
}

/// Apply an operation to the model. `history` gives access to earlier versions (restore).
/// Err = the operation must fail without effect.
pub fn model_apply(st: &mut TableState, op: &Op, history: &BTreeMap<u64, TableState>) -> std::result::Result<(), String> {
    match op {
        Op::Append { rows, .. } => {
            st.rows.extend(rows.iter().cloned());
            Ok(())
        }
        Op::Overwrite { rows, .. } => {
            st.rows = rows.clone();
            st.order_exact = true;
            st.indices.clear();
            Ok(())
        }
        Op::Delete { pred } => {
            st.apply_delete(pred);
            Ok(())
        }
        Op::Update { sets, pred } => {
            st.apply_update(sets, pred);
            Ok(())
        }
        Op::Merge { src_cols, rows, wm, wnm, by_source, .. } => {
            let cols: Vec<ColDef> = src_cols.iter().map(|n| st.cols.iter().find(|c| &c.name == n).unwrap().clone()).collect();
            let mut tmp = st.clone();
            tmp.apply_merge(&cols, rows, *wm, *wnm, by_source)?;
            *st = tmp;
            Ok(())
        }
        Op::Compact { .. } => {
            st.order_exact = false;
            Ok(())
        }
        Op::CreateIndex { col, kind, name, replace, .. } => {
            if st.indices.iter().any(|i| &i.name == name) {
                if !*replace {
                    return Err("index exists".into());
                }
                st.indices.retain(|i| &i.name != name);
            }
            st.indices.push(ModelIndex { name: name.clone(), column: col.clone(), kind: format!("{:?}", kind) });
            Ok(())
        }
        Op::DropIndex { name } => {
            if !st.indices.iter().any(|i| &i.name == name) {
                return Err("no such index".into());
            }
            st.indices.retain(|i| &i.name != name);
            Ok(())
        }
        Op::OptimizeIndices { .. } => Ok(()),
        Op::AddColSql { name, ty, from, add } => {
            let fi = st.col(from).ok_or("no source column")?;
            if st.col(name).is_some() {
                return Err("column exists".into());
            }
            // lance derives nullability from the expression: `col + const` is nullable iff col is
            let nullable = st.cols[fi].nullable;
            st.cols.push(ColDef { name: name.clone(), ty: *ty, nullable });
            for r in st.rows.iter_mut() {
                let v = match &r[fi] {
                    Val::I(x) => Val::I(x + add),
                    _ => Val::Null,
                };
                r.push(v);
            }
            Ok(())
        }
        Op::AddColNull { name, ty } => {
            if st.col(name).is_some() {
                return Err("column exists".into());
            }
            st.cols.push(ColDef { name: name.clone(), ty: *ty, nullable: true });
            for r in st.rows.iter_mut() {
                r.push(Val::Null);
            }
            Ok(())
        }
        Op::DropCol { name } => {
            let i = st.col(name).ok_or("no such column")?;
            st.cols.remove(i);
            for r in st.rows.iter_mut() {
                r.remove(i);
            }
            st.indices.retain(|ix| &ix.column != name);
            Ok(())
        }
        Op::MergeCols { name, keys, mul } => {
            if st.col(name).is_some() {
                return Err("column exists".into());
            }
            let ki = st.col("k").ok_or("no key column")?;
            st.cols.push(ColDef { name: name.clone(), ty: Ty::I64, nullable: true });
            for r in st.rows.iter_mut() {
                let v = match &r[ki] {
                    Val::I(k) if keys.contains(k) => Val::I(k * mul + 1),
                    _ => Val::Null,
                };
                r.push(v);
            }
            Ok(())
        }
        Op::CastCol { name, to } => {
            let i = st.col(name).ok_or("no such column")?;
            // lance allows integer <-> integer (values here always fit)
            if !matches!((st.cols[i].ty, *to), (Ty::I64, Ty::I32) | (Ty::I32, Ty::I64)) {
                return Err("cast not modelled".into());
            }
            st.cols[i].ty = *to;
            Ok(())
        }
        Op::RenameCol { from, to } => {
            if st.col(to).is_some() {
                return Err("column exists".into());
            }
            let i = st.col(from).ok_or("no such column")?;
            st.cols[i].name = to.clone();
            for ix in st.indices.iter_mut() {
                if &ix.column == from {
                    ix.column = to.clone();
                }
            }
            Ok(())
        }
        Op::UpdateConfig { key, value } => {
            match value {
                Some(v) => {
                    st.config.insert(key.clone(), v.clone());
                }
                None => {
                    st.config.remove(key);
                }
            }
            Ok(())
        }
        Op::Restore { version } => {
            let old = history.get(version).ok_or("no such version")?;
            *st = old.clone();
            Ok(())
        }
        Op::CreateVectorIndex { cosine, .. } => {
            st.indices.retain(|i| i.name != "vec_idx");
            st.indices.push(ModelIndex { name: "vec_idx".into(), column: "vec".into(), kind: if *cosine { "IvfFlatCosine".into() } else { "IvfFlatL2".into() } });
            Ok(())
        }
        Op::CreateFtsIndex => {
            st.indices.retain(|i| i.name != "txt_idx");
            st.indices.push(ModelIndex { name: "txt_idx".into(), column: "txt".into(), kind: "Inverted".into() });
            Ok(())
        }
    }
}

// ---------------------------------------------------------------------------
// Reading back
// ---------------------------------------------------------------------------

#[derive(Default, Clone)]
pub struct ScanOpts {
    pub filter: Option<String>,
    pub columns: Option<Vec<String>>,
    pub ordered: bool,
    pub with_row_id: bool,
    pub with_row_addr: bool,
    pub use_scalar_index: Option<bool>,
    pub batch_size: Option<usize>,
    pub limit: Option<(i64, i64)>,
    pub use_stats: Option<bool>,
    pub prefilter: Option<bool>,
    pub fragment_readahead: Option<usize>,
    pub batch_readahead: Option<usize>,
    pub io_buffer_size: Option<u64>,
    pub late_materialization: Option<bool>,
    pub version_cols: bool,
}

pub async fn scan(ds: &Dataset, o: &ScanOpts) -> Result<(Vec<String>, Vec<Row>)> {
    let mut sc = ds.scan();
    let mut cols: Option<Vec<String>> = o.columns.clone();
    if o.version_cols {
        let mut c = cols.unwrap_or_else(|| ds.schema().fields.iter().map(|f| f.name.clone()).collect());
        c.push("_row_created_at_version".into());
        c.push("_row_last_updated_at_version".into());
        cols = Some(c);
    }
    if let Some(c) = &cols {
        sc.project(c)?;
    }
    if let Some(f) = &o.filter {
        sc.filter(f)?;
    }
    if o.ordered {
        sc.scan_in_order(true);
    }
    if o.with_row_id {
        sc.with_row_id();
    }
    if o.with_row_addr {
        sc.with_row_address();
    }
    if let Some(u) = o.use_scalar_index {
        sc.use_scalar_index(u);
    }
    if let Some(b) = o.batch_size {
        sc.batch_size(b);
    }
    if let Some((lim, off)) = o.limit {
        sc.limit(Some(lim), Some(off))?;
    }
    if let Some(u) = o.use_stats {
        sc.use_stats(u);
    }
    if let Some(p) = o.prefilter {
        sc.prefilter(p);
    }
    if let Some(n) = o.fragment_readahead {
        sc.fragment_readahead(n);
    }
    if let Some(n) = o.batch_readahead {
        sc.batch_readahead(n);
    }
    if let Some(n) = o.io_buffer_size {
        sc.io_buffer_size(n);
    }
    if let Some(l) = o.late_materialization {
        sc.materialization_style(if l {
            lance::dataset::scanner::MaterializationStyle::AllLate
        } else {
            lance::dataset::scanner::MaterializationStyle::AllEarly
        });
    }
    let stream = sc.try_into_stream().await?;
    let schema: arrow_schema::SchemaRef = stream.schema().as_ref().clone().into();
    let batches: Vec<RecordBatch> = stream.try_collect().await?;
    let names = schema.fields().iter().map(|f| f.name().clone()).collect();
    Ok((names, batches_to_rows(&batches)))
}

/// Full scan of all columns, rows in model column order.
pub async fn scan_all(ds: &Dataset, ordered: bool) -> Result<(Vec<String>, Vec<Row>)> {
    scan(ds, &ScanOpts { ordered, ..Default::default() }).await
}

pub fn timeout_err(what: &str) -> Error {
    Error::io(format!("sim: operation timed out in virtual time: {}", what), snafu::location!())
}

/// Run a future under a (virtual-time) deadline.
pub async fn with_deadline<T>(secs: u64, what: &str, f: impl std::future::Future<Output = Result<T>>) -> Result<T> {
    match tokio::time::timeout(Duration::from_secs(secs), f).await {
        Ok(r) => r,
        Err(_) => Err(timeout_err(what)),
    }
}

//! Commit handlers under simulation: the real lance handlers, wired to a
//! simulated lock service / external manifest store that go through the gate.

use std::sync::Arc;

use async_trait::async_trait;
use lance_core::{Error, Result};
use lance_table::io::commit::external_manifest::{ExternalManifestCommitHandler, ExternalManifestStore};
use lance_table::io::commit::{
    CommitError, CommitHandler, CommitLease, CommitLock, ConditionalPutCommitHandler, RenameCommitHandler,
    UnsafeCommitHandler,
};
use serde::Serialize;
use snafu::location;

use crate::world::{ActorId, CallKind, Decision, ExtEntry, World};

#[derive(Clone, Copy, Debug, PartialEq, Eq, Hash, Serialize)]
pub enum HandlerKind {
    CondPut,
    Rename,
    Lock,
    External,
    /// known-bad control (no atomic create)
    Unsafe,
}

impl HandlerKind {
    pub const ATOMIC: [HandlerKind; 4] = [Self::CondPut, Self::Rename, Self::Lock, Self::External];
    pub fn parse(s: &str) -> Option<Self> {
        Some(match s {
            "condput" => Self::CondPut,
            "rename" => Self::Rename,
            "lock" => Self::Lock,
            "external" => Self::External,
            "unsafe" => Self::Unsafe,
            _ => return None,
        })
    }
}

pub fn make_handler(kind: HandlerKind, w: &Arc<World>, actor: ActorId) -> Arc<dyn CommitHandler> {
    match kind {
        HandlerKind::CondPut => Arc::new(ConditionalPutCommitHandler),
        HandlerKind::Rename => Arc::new(RenameCommitHandler),
        HandlerKind::Unsafe => Arc::new(UnsafeCommitHandler),
        HandlerKind::Lock => Arc::new(SimLock { w: w.clone(), actor }),
        HandlerKind::External => Arc::new(ExternalManifestCommitHandler {
            external_manifest_store: Arc::new(SimExtStore { w: w.clone(), actor }),
        }),
    }
}

// ---------------------------------------------------------------------------
// lock service: a true mutex keyed by nothing (one table per lock service),
// released on crash only after the party is fenced (World::kill / record).
// ---------------------------------------------------------------------------

#[derive(Debug)]
pub struct SimLock {
    pub w: Arc<World>,
    pub actor: ActorId,
}

impl std::fmt::Debug for World {
    fn fmt(&self, f: &mut std::fmt::Formatter<'_>) -> std::fmt::Result {
        write!(f, "World")
    }
}

pub struct SimLease {
    w: Arc<World>,
    actor: ActorId,
}

#[async_trait]
impl CommitLock for SimLock {
    type Lease = SimLease;
    async fn lock(&self, version: u64) -> std::result::Result<Self::Lease, CommitError> {
        let path = format!("lock/{}", version);
        for _attempt in 0..10_000 {
            let (seq, d) = self.w.enter(self.actor, CallKind::LockAcquire, &path, 0).await;
            match d {
                Decision::FailPre | Decision::CrashPre | Decision::ConnReset => {
                    self.w.record(self.actor, seq, CallKind::LockAcquire, &path, d, false);
                    return Err(CommitError::OtherError(Error::io("sim fault: lock service error".to_string(), location!())));
                }
                _ => {}
            }
            let got = {
                let mut g = self.w.lock();
                if g.locks.contains_key(&0) {
                    false
                } else {
                    g.locks.insert(0, self.actor);
                    true
                }
            };
            self.w.record(self.actor, seq, CallKind::LockAcquire, &path, d, got);
            if matches!(d, Decision::CrashPost) {
                return Err(CommitError::OtherError(Error::io("sim: party is dead".to_string(), location!())));
            }
            if got {
                if matches!(d, Decision::FailPost) {
                    // lock acquired but response lost: a real lock service would time the
                    // lease out; we model the lease as released immediately (the caller never
                    // believed it held it)
                    self.w.lock().locks.remove(&0);
                    return Err(CommitError::OtherError(Error::io("sim fault: lock response lost".to_string(), location!())));
                }
                return Ok(SimLease { w: self.w.clone(), actor: self.actor });
            }
            // held by someone else: wait (virtual time) and retry
            tokio::time::sleep(std::time::Duration::from_millis(20)).await;
        }
        Err(CommitError::OtherError(Error::io("sim: lock wait exhausted".to_string(), location!())))
    }
}

#[async_trait]
impl CommitLease for SimLease {
    async fn release(&self, _success: bool) -> std::result::Result<(), CommitError> {
        let (seq, d) = self.w.enter(self.actor, CallKind::LockRelease, "lock", 0).await;
        // a release always takes effect eventually (lease expiry); faults only affect the response
        {
            let mut g = self.w.lock();
            if g.locks.get(&0) == Some(&self.actor) {
                g.locks.remove(&0);
            }
        }
        self.w.record(self.actor, seq, CallKind::LockRelease, "lock", d, true);
        match d {
            Decision::Proceed | Decision::Dup => Ok(()),
            _ => Err(CommitError::OtherError(Error::io("sim fault: lock release error".to_string(), location!()))),
        }
    }
}

// ---------------------------------------------------------------------------
// external manifest store (DynamoDB stand-in)
// ---------------------------------------------------------------------------

#[derive(Debug)]
pub struct SimExtStore {
    pub w: Arc<World>,
    pub actor: ActorId,
}

fn ext_err(d: Decision) -> Error {
    match d {
        Decision::CrashPre | Decision::CrashPost => Error::io("sim: party is dead".to_string(), location!()),
        _ => Error::io("sim fault: external store error".to_string(), location!()),
    }
}

macro_rules! ext_pre {
    ($self:ident, $kind:expr, $path:expr) => {{
        let (seq, d) = $self.w.enter($self.actor, $kind, $path, 0).await;
        match d {
            Decision::FailPre | Decision::CrashPre | Decision::ConnReset => {
                $self.w.record($self.actor, seq, $kind, $path, d, false);
                return Err(ext_err(d));
            }
            _ => {}
        }
        (seq, d)
    }};
}

#[async_trait]
impl ExternalManifestStore for SimExtStore {
    async fn get(&self, base_uri: &str, version: u64) -> Result<String> {
        let key = format!("{}@{}", base_uri, version);
        let (seq, d) = ext_pre!(self, CallKind::ExtGet, &key);
        let res = {
            let g = self.w.lock();
            g.ext.get(&(base_uri.to_string(), version)).map(|e| e.path.clone())
        };
        self.w.record(self.actor, seq, CallKind::ExtGet, &key, d, res.is_some());
        if matches!(d, Decision::FailPost | Decision::CrashPost) {
            return Err(ext_err(d));
        }
        res.ok_or_else(|| Error::NotFound { uri: key, location: location!() })
    }

    async fn get_latest_version(&self, base_uri: &str) -> Result<Option<(u64, String)>> {
        let (seq, d) = ext_pre!(self, CallKind::ExtGetLatest, base_uri);
        let res = {
            let g = self.w.lock();
            let mut it = g
                .ext
                .range((base_uri.to_string(), 0)..=(base_uri.to_string(), u64::MAX))
                .rev();
            let first = it.next();
            // eventually consistent read: may return the previous committed entry
            let pick = if g.ext_stale && matches!(d, Decision::Dup) { it.next().or(first) } else { first };
            pick.map(|((_, v), e)| (*v, e.path.clone()))
        };
        self.w.record(self.actor, seq, CallKind::ExtGetLatest, base_uri, d, true);
        if matches!(d, Decision::FailPost | Decision::CrashPost) {
            return Err(ext_err(d));
        }
        Ok(res)
    }

    async fn put_if_not_exists(&self, base_uri: &str, version: u64, path: &str, size: u64, e_tag: Option<String>) -> Result<()> {
        let key = format!("{}@{}", base_uri, version);
        let (seq, d) = ext_pre!(self, CallKind::ExtPutIfNotExists, &key);
        let ok = {
            let mut g = self.w.lock();
            let k = (base_uri.to_string(), version);
            if g.ext.contains_key(&k) {
                false
            } else {
                g.ext.insert(k, ExtEntry { path: path.to_string(), size: Some(size), e_tag });
                true
            }
        };
        self.w.record(self.actor, seq, CallKind::ExtPutIfNotExists, &key, d, ok);
        if matches!(d, Decision::FailPost | Decision::CrashPost | Decision::Dup) {
            return Err(ext_err(d));
        }
        if ok {
            Ok(())
        } else {
            Err(Error::io(format!("sim ext store: version {} already exists", version), location!()))
        }
    }

    async fn put_if_exists(&self, base_uri: &str, version: u64, path: &str, size: u64, e_tag: Option<String>) -> Result<()> {
        let key = format!("{}@{}", base_uri, version);
        let (seq, d) = ext_pre!(self, CallKind::ExtPutIfExists, &key);
        let ok = {
            let mut g = self.w.lock();
            let k = (base_uri.to_string(), version);
            if let Some(e) = g.ext.get_mut(&k) {
                *e = ExtEntry { path: path.to_string(), size: Some(size), e_tag };
                true
            } else {
                false
            }
        };
        self.w.record(self.actor, seq, CallKind::ExtPutIfExists, &key, d, ok);
        if matches!(d, Decision::FailPost | Decision::CrashPost) {
            return Err(ext_err(d));
        }
        if ok {
            Ok(())
        } else {
            Err(Error::io(format!("sim ext store: version {} does not exist", version), location!()))
        }
    }

    async fn delete(&self, base_uri: &str) -> Result<()> {
        let (seq, d) = ext_pre!(self, CallKind::ExtDelete, base_uri);
        {
            let mut g = self.w.lock();
            let keys: Vec<_> = g.ext.keys().filter(|(b, _)| b == base_uri).cloned().collect();
            for k in keys {
                g.ext.remove(&k);
            }
        }
        self.w.record(self.actor, seq, CallKind::ExtDelete, base_uri, d, true);
        Ok(())
    }
}

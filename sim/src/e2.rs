//! E2: protocol-level commit-handler races (placeholder, filled in below).
use crate::runres::{RunCfg, RunResult};

pub async fn run(cfg: RunCfg) -> RunResult {
    RunResult::harness_error(&cfg, "e2 not built yet".into())
}

//! E2: protocol-level races on the commit handlers (C02, C10, C33).
//!
//! 2-3 writers and 1-2 readers call the real `CommitHandler` methods directly with tiny
//! manifests carrying a unique marker per attempt, under the seeded scheduler and faults.

use std::collections::{BTreeMap, BTreeSet, HashMap};
use std::sync::{Arc, Mutex};

use lance_core::datatypes::Schema as LanceSchema;
use lance_file::version::LanceFileVersion;
use lance_table::format::{DataStorageFormat, Manifest};
use lance_table::io::commit::{write_manifest_file_to_path, CommitError, CommitHandler, ManifestNamingScheme};
use object_store::path::Path;

use crate::driver::{drive, SchedCfg};
use crate::handlers::{make_handler, HandlerKind};
use crate::rng::Rng;
use crate::runres::{RunCfg, RunResult};
use crate::world::{Decision, LanceKnobs, Party, PathClass, World};

const BASE: &str = "t";
const URI: &str = "sim://bucket/t";

#[derive(Clone, Debug)]
enum Obs {
    /// writer result: (attempt marker, version tried, outcome)
    Commit { actor: u32, marker: String, version: u64, outcome: String },
    /// reader saw `marker` at `version` (via latest or by version)
    Read { actor: u32, version: u64, marker: String, how: &'static str },
}

fn base_manifest(marker: &str) -> Manifest {
    let arrow = arrow_schema::Schema::new(vec![arrow_schema::Field::new("x", arrow_schema::DataType::Int32, true)]);
    let schema = LanceSchema::try_from(&arrow).unwrap();
    let mut m = Manifest::new(schema, Arc::new(vec![]), DataStorageFormat::new(LanceFileVersion::V2_0), HashMap::new());
    m.config.insert("mk".into(), marker.to_string());
    m
}

pub fn marker_of(bytes: &[u8]) -> Option<String> {
    // the marker is stored as a plain string "MK<...>KM" inside the manifest protobuf
    let s = String::from_utf8_lossy(bytes);
    let a = s.find("MK<")?;
    let b = s[a..].find(">KM")?;
    Some(s[a + 3..a + b].to_string())
}

async fn read_marker(party: &Party, path: &Path) -> Option<String> {
    let store = party.raw_store();
    match store.get(path).await {
        Ok(r) => match r.bytes().await {
            Ok(b) => marker_of(&b),
            Err(_) => None,
        },
        Err(_) => None,
    }
}

async fn writer(party: Arc<Party>, handler: Arc<dyn CommitHandler>, scheme: ManifestNamingScheme, attempts: u32, obs: Arc<Mutex<Vec<Obs>>>) {
    let store = party.lance_store(URI);
    let base = Path::from(BASE);
    for att in 0..attempts {
        let latest = match handler.resolve_latest_location(&base, &store).await {
            Ok(l) => l,
            Err(_) => continue,
        };
        let marker = format!("MK<a{}-{}>KM", party.id, att);
        let mut m = base_manifest(&marker);
        m.version = latest.version + 1;
        let res = handler.commit(&mut m, None, &base, &store, write_manifest_file_to_path, scheme, None).await;
        let outcome = match &res {
            Ok(_) => "ok".to_string(),
            Err(CommitError::CommitConflict) => "conflict".to_string(),
            Err(CommitError::OtherError(e)) => format!("error:{}", crate::e1::err_class(&e.to_string())),
        };
        obs.lock().unwrap().push(Obs::Commit { actor: party.id, marker: marker[3..marker.len() - 3].to_string(), version: m.version, outcome });
    }
}

async fn reader(party: Arc<Party>, handler: Arc<dyn CommitHandler>, rounds: u32, seed: u64, obs: Arc<Mutex<Vec<Obs>>>) {
    let store = party.lance_store(URI);
    let base = Path::from(BASE);
    let mut rng = Rng::new(seed);
    for _ in 0..rounds {
        if let Ok(loc) = handler.resolve_latest_location(&base, &store).await {
            if let Some(mk) = read_marker(&party, &loc.path).await {
                obs.lock().unwrap().push(Obs::Read { actor: party.id, version: loc.version, marker: mk, how: "latest" });
            }
            let v = rng.range(1, loc.version as i64) as u64;
            if let Ok(l2) = handler.resolve_version_location(&base, v, &store.inner).await {
                if let Some(mk) = read_marker(&party, &l2.path).await {
                    obs.lock().unwrap().push(Obs::Read { actor: party.id, version: v, marker: mk, how: "by-version" });
                }
            }
        }
    }
}

pub async fn run(cfg: RunCfg) -> RunResult {
    let t0 = std::time::Instant::now();
    let mut res = RunResult::new(&cfg);
    let mut rng = Rng::new(cfg.seed);
    let w = World::new();
    let hk = match cfg.opt("handler").and_then(HandlerKind::parse) {
        Some(h) => h,
        None => *rng.pick(&HandlerKind::ATOMIC),
    };
    let amb = cfg.opt_bool("amb").unwrap_or(false);
    let faults_on = cfg.opt_bool("faults").unwrap_or(true);
    let scheme = if rng.chance(0.75) { ManifestNamingScheme::V2 } else { ManifestNamingScheme::V1 };
    let knobs = LanceKnobs { block_size: 4096, io_parallelism: 4, download_retry_count: rng.range(0, 2) as usize, list_is_lexically_ordered: rng.chance(0.6) };
    {
        let mut g = w.lock();
        g.knobs.list_lexical = knobs.list_is_lexically_ordered || rng.chance(0.5);
        g.knobs.list_salt = rng.next_u64();
        g.knobs.delete_missing_ok = rng.chance(0.5);
        g.ext_stale = hk == HandlerKind::External && rng.chance(0.5);
    }
    res.knobs.insert("handler".into(), format!("{:?}", hk));
    res.knobs.insert("scheme".into(), format!("{:?}", scheme));
    res.knobs.insert("amb".into(), amb.to_string());
    res.knobs.insert("list_lexical".into(), knobs.list_is_lexically_ordered.to_string());

    // version 1, fault free, direct mode
    let p0 = Arc::new(Party::new(&w, 0, knobs.clone()));
    let h0 = make_handler(hk, &w, 0);
    {
        let store = p0.lance_store(URI);
        let mut m = base_manifest("MK<init>KM");
        m.version = 1;
        if let Err(e) = h0.commit(&mut m, None, &Path::from(BASE), &store, write_manifest_file_to_path, scheme, None).await {
            return RunResult::harness_error(&cfg, format!("initial commit failed: {:?}", e));
        }
    }

    if std::env::var("VERIF_TIMING").is_ok() { eprintln!("t init {:?}", t0.elapsed()); }
    let nwriters = if cfg.thorough() { rng.range(2, 5) } else { rng.range(2, 3) } as u32;
    let nreaders = rng.range(1, 2) as u32;
    let attempts = if cfg.thorough() { rng.range(2, 5) } else { rng.range(1, 3) } as u32;
    let obs: Arc<Mutex<Vec<Obs>>> = Arc::new(Mutex::new(Vec::new()));
    let mut actors = Vec::new();
    let mut tasks = Vec::new();
    w.set_gated(true);
    for i in 0..nwriters {
        let id = 1 + i;
        let p = Arc::new(Party::new(&w, id, knobs.clone()));
        let h = make_handler(hk, &w, id);
        actors.push(id);
        tasks.push(tokio::spawn(writer(p, h, scheme, attempts, obs.clone())));
    }
    for i in 0..nreaders {
        let id = 10 + i;
        let p = Arc::new(Party::new(&w, id, knobs.clone()));
        let h = make_handler(hk, &w, id);
        actors.push(id);
        tasks.push(tokio::spawn(reader(p, h, rng.range(1, 3) as u32, rng.next_u64(), obs.clone())));
    }
    res.script.push(format!("{} writers x {} attempts, {} readers, handler {:?}, scheme {:?}", nwriters, attempts, nreaders, hk, scheme));
    let mut sc = SchedCfg { p_reorder: 0.2, p_stick: rng.f64() * 0.8, ..Default::default() };
    if faults_on {
        sc.fault_budget = rng.range(0, 3) as u32;
        sc.p_fault = 0.08;
        sc.faults = if amb {
            vec![Decision::FailPost, Decision::Dup, Decision::FailPre]
        } else {
            vec![Decision::FailPre, Decision::CrashPre, Decision::CrashPost]
        };
        sc.amb_classes = vec![PathClass::Manifest, PathClass::ManifestStaging];
    }
    if std::env::var("VERIF_TIMING").is_ok() { eprintln!("t spawn {:?}", t0.elapsed()); }
    let out = drive(&w, &mut rng, &sc, &actors, &mut tasks, cfg.trace).await;
    if std::env::var("VERIF_TIMING").is_ok() { eprintln!("t drive {:?}", t0.elapsed()); }
    w.set_gated(false);
    res.interleaving_hash = out.hash;
    res.nontrivial = out.overlapped || out.faults_fired > 0;
    res.trace = out.trace.clone();
    if out.stuck {
        res.violate("C02", "liveness", &format!("stuck:{:?}", hk), 0, format!("no progress for {} virtual ms with parties unfinished", sc.t_live_ms));
    }
    res.probe_n("decisions", out.decisions);
    if out.overlapped {
        res.probe("overlapped");
    }

    // ---------------- oracles over the history ----------------
    let obs = obs.lock().unwrap().clone();
    // O-immut
    {
        let g = w.lock();
        for v in g.immut_violations.iter() {
            res.violate("C02", "O-immut", &format!("manifest-replaced:{:?}", hk), 0, v.clone());
        }
    }
    // final published manifests
    let mut published: BTreeMap<u64, String> = BTreeMap::new();
    for p in w.list_paths(&format!("{}/_versions/", BASE)) {
        let name = p.rsplit('/').next().unwrap();
        if let Some(sch) = ManifestNamingScheme::detect_scheme(name) {
            if let Some(v) = sch.parse_version(name) {
                if let Some(mk) = w.get_raw(&p).and_then(|b| marker_of(&b)) {
                    if published.insert(v, mk).is_some() {
                        res.violate("C02", "unique-version", "version-published-twice", 0, format!("version {} present under two names", v));
                    }
                }
            }
        }
    }
    // with the external store a version may be committed but not yet finalised
    let mut committed: BTreeMap<u64, String> = published.clone();
    if hk == HandlerKind::External {
        let ext: Vec<((String, u64), crate::world::ExtEntry)> = w.lock().ext.iter().map(|(k, v)| (k.clone(), v.clone())).collect();
        for ((_, v), e) in ext {
            match w.get_raw(&e.path).and_then(|b| marker_of(&b)) {
                Some(mk) => {
                    if let Some(old) = committed.get(&v) {
                        if *old != mk {
                            res.violate("C10", "one-content-per-version", "ext-and-final-differ", 0, format!("version {}: external entry -> {} ({}), final path holds {}", v, e.path, mk, old));
                        }
                    }
                    committed.insert(v, mk);
                }
                None => {
                    if !amb || true {
                        res.violate("C10", "durable", if amb { "ext-entry-dangling:amb" } else { "ext-entry-dangling" }, 0, format!("external store entry for version {} points to missing object {}", v, e.path));
                    }
                }
            }
        }
    }
    // writers
    let mut ok_by_version: BTreeMap<u64, Vec<(u32, String)>> = BTreeMap::new();
    for o in obs.iter() {
        if let Obs::Commit { actor, marker, version, outcome } = o {
            res.probe(&format!("commit-{}", outcome.split(':').next().unwrap()));
            if outcome == "ok" {
                ok_by_version.entry(*version).or_default().push((*actor, marker.clone()));
                match committed.get(version) {
                    Some(mk) if mk == marker => {}
                    other => res.violate("C02", "winner-durable", &format!("ok-but-not-published:{:?}", hk), 0, format!("writer a{} got Ok for version {} with marker {} but version holds {:?}", actor, version, marker, other)),
                }
            } else if outcome == "conflict" {
                if let Some(mk) = committed.get(version) {
                    if mk == marker && !amb {
                        res.violate("C02", "loser-not-published", &format!("conflict-but-published:{:?}", hk), 0, format!("writer a{} was told conflict for version {} but its manifest {} is the published one", actor, version, marker));
                    }
                }
            }
        }
    }
    for (v, ws) in ok_by_version.iter() {
        if ws.len() > 1 {
            res.violate("C02", "one-winner", &format!("two-winners:{:?}", hk), 0, format!("version {} reported Ok to {:?}", v, ws));
        }
    }
    // dense
    if let Some(maxv) = committed.keys().max() {
        for v in 1..=*maxv {
            if !committed.contains_key(&v) {
                res.violate("C01", "dense-versions", "gap-in-versions", 0, format!("version {} missing while {} exists", v, maxv));
            }
        }
    }
    // readers: same content for a version for everybody, equal to the final content
    let mut seen: BTreeMap<u64, BTreeSet<String>> = BTreeMap::new();
    for o in obs.iter() {
        if let Obs::Read { actor, version, marker, how } = o {
            res.probe("reads");
            seen.entry(*version).or_default().insert(marker.clone());
            if let Some(mk) = committed.get(version) {
                if mk != marker {
                    res.violate(if hk == HandlerKind::External { "C10" } else { "C02" }, "one-content-per-version", &format!("reader-saw-other-content:{:?}", hk), 0, format!("reader a{} ({}) saw {} at version {}, final content is {}", actor, how, marker, version, mk));
                }
            }
        }
    }
    for (v, s) in seen.iter() {
        if s.len() > 1 {
            res.violate(if hk == HandlerKind::External { "C10" } else { "C02" }, "one-content-per-version", &format!("two-contents-seen:{:?}", hk), 0, format!("version {} was read with contents {:?}", v, s));
        }
    }

    // ---------------- after faults stop: repair + bounded liveness ----------------
    let pf = Arc::new(Party::new(&w, 50, knobs.clone()));
    let hf = make_handler(hk, &w, 50);
    let store = pf.lance_store(URI);
    let base = Path::from(BASE);
    let expect_latest = committed.keys().max().cloned().unwrap_or(1);
    match hf.resolve_latest_location(&base, &store).await {
        Ok(loc) => {
            if loc.version != expect_latest {
                res.violate("C33", "latest-is-highest", &format!("latest-wrong:{:?}", hk), 0, format!("fresh reader resolves latest={} but highest committed is {}", loc.version, expect_latest));
            }
        }
        Err(e) => res.violate(if hk == HandlerKind::External { "C10" } else { "C33" }, "latest-resolvable", &format!("latest-error:{:?}{}", hk, if amb { ":amb" } else { "" }), 0, format!("fresh reader cannot resolve latest: {}", e)),
    }
    for (v, mk) in committed.iter() {
        match hf.resolve_version_location(&base, *v, &store.inner).await {
            Ok(loc) => {
                let got = read_marker(&pf, &loc.path).await;
                if got.as_ref() != Some(mk) {
                    res.violate("C10", "repair-same-content", &format!("resolve-version-content:{:?}", hk), 0, format!("version {} resolves to {} holding {:?}, expected {}", v, loc.path, got, mk));
                }
                if hk == HandlerKind::External {
                    let std_path = scheme.manifest_path(&base, *v);
                    if loc.path != std_path {
                        res.violate("C10", "repair-to-standard-path", "not-finalised", 0, format!("version {} resolved to {} not the standard path {}", v, loc.path, std_path));
                    }
                }
            }
            Err(e) => res.violate("C10", "committed-resolvable", &format!("resolve-version-error:{:?}{}", hk, if amb { ":amb" } else { "" }), 0, format!("committed version {} cannot be resolved: {}", v, e)),
        }
    }
    // a fresh writer commits within 3 attempts
    let mut committed_new = false;
    for att in 0..3 {
        if let Ok(latest) = hf.resolve_latest_location(&base, &store).await {
            let mut m = base_manifest(&format!("MK<fresh-{}>KM", att));
            m.version = latest.version + 1;
            if hf.commit(&mut m, None, &base, &store, write_manifest_file_to_path, scheme, None).await.is_ok() {
                committed_new = true;
                break;
            }
        }
    }
    if !committed_new {
        res.violate("C02", "liveness", &format!("fresh-writer-cannot-commit:{:?}{}", hk, if amb { ":amb" } else { "" }), 0, "after faults stopped a fresh writer could not commit in 3 attempts".into());
    }

    {
        let g = w.lock();
        res.calls = g.stats.calls;
        res.faults = g.stats.faults.clone();
        res.sim_time_ms = ((g.clock_ns - crate::world::EPOCH_NS) / 1_000_000) as u64;
    }
    res.digest = w.digest();
    res.steps = out.decisions;
    res.kinds = vec![format!("{:?}", hk)];
    res.wall_ms = t0.elapsed().as_millis() as u64;
    res
}

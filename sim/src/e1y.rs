//! Sequential-engine extras: cache transparency (C38) and copied table root (C42).

use std::collections::BTreeMap;
use std::sync::Arc;

use crate::e1::{diff_rows, err_class, sorted, Runner};
use crate::model::*;
use crate::table::*;
use crate::world::Party;

/// State of the C38 scenario: a second table sharing the session, and bookkeeping.
pub struct CacheScenario {
    pub other_uri: String,
    pub other_state: TableState,
}

impl Runner {
    /// C38 setup: replace the main party by one with the requested cache sizes is done in
    /// `Runner::setup`; here a second table sharing the same session is created.
    pub async fn cache_scenario_init(&mut self) -> Option<CacheScenario> {
        let cols = default_cols();
        let rows = self.gen.fresh_rows(&mut self.rng, &cols, 9);
        let octx = Ctx { uri: "sim://bucket/tbl2".into(), ..self.ctx.clone() };
        match octx.create(&cols, &rows, 4).await {
            Ok(_) => Some(CacheScenario { other_uri: octx.uri.clone(), other_state: TableState { cols, rows, order_exact: true, config: BTreeMap::new(), indices: vec![] } }),
            Err(e) => {
                self.res.violate("C38", "second-table", "second-table-create-error", self.step, e.to_string());
                None
            }
        }
    }

    /// C38 step: occasionally (a) another party writes and the long-lived handle refreshes,
    /// (b) the table is dropped and re-created at the same URI inside the same session.
    pub async fn cache_scenario_step(&mut self, sc: &mut CacheScenario) {
        let roll = self.rng.below(10);
        if roll < 2 {
            // foreign write by another party (own session); then the shared-session handle refreshes
            let party = self.fresh_party();
            let ctx = self.ctx.for_party(party);
            let rows = self.gen.fresh_rows(&mut self.rng, &self.st.cols.clone(), 4);
            let op = Op::Append { rows, per_file: 10, batches: 1 };
            let st = self.st.clone();
            if let Ok(mut ds) = ctx.open().await {
                if exec_op(&ctx, &mut ds, &st, &op).await.is_ok() {
                    let mut post = st.clone();
                    let _ = model_apply(&mut post, &op, &self.history);
                    let nv = ds.version().version;
                    self.lin.apply(&op, &st, &post, nv);
                    self.st = post;
                    self.history.insert(nv, self.st.clone());
                    self.res.script.push(format!("{}: foreign append by another party -> v{}", self.step, nv));
                    self.res.kinds.push("foreign-append".into());
                    self.res.probe("foreign-write");
                    if let Err(e) = self.ds.checkout_latest().await {
                        self.res.violate("C38", "refresh", "checkout-latest-error", self.step, e.to_string());
                    }
                    self.o_scan("C38", "foreign-append").await;
                }
            }
        } else if roll == 2 {
            // drop every object of the table and re-create it at the same URI with the same session
            for p in self.w.list_paths("tbl/") {
                self.w.delete_raw(&p);
            }
            {
                // the external manifest store belongs to the table's storage too
                let mut g = self.w.lock();
                let keys: Vec<_> = g.ext.keys().filter(|(b, _)| b == "tbl").cloned().collect();
                for k in keys {
                    g.ext.remove(&k);
                }
            }
            let cols = default_cols();
            let n = self.rng.range(3, 20) as usize;
            let rows = self.gen.fresh_rows(&mut self.rng, &cols, n);
            let per_file = self.rng.range(3, 10) as usize;
            match self.ctx.create(&cols, &rows, per_file).await {
                Ok(ds) => {
                    self.ds = ds;
                    self.st = TableState { cols, rows, order_exact: true, config: BTreeMap::new(), indices: vec![] };
                    self.history.clear();
                    self.history.insert(self.ds.version().version, self.st.clone());
                    self.lin = crate::lineage::Lineage::new();
                    self.lin.init(&self.st, self.ds.version().version);
                    self.seen_col_rewrite = false;
                    self.seen_defer_remap = false;
                    self.res.script.push(format!("{}: drop all objects and re-create the table at the same URI (same session)", self.step));
                    self.res.kinds.push("recreate".into());
                    self.res.probe("recreated-at-same-uri");
                    self.recreated = true;
                    self.o_scan("C38", "recreate").await;
                    self.o_count("C38").await;
                    self.o_validate().await;
                    self.o_index_diff(3).await;
                }
                Err(e) => self.res.violate("C38", "recreate", &format!("recreate-error:{}", err_class(&e.to_string())), self.step, format!("re-creating the table at the same URI failed: {}", e)),
            }
        }
        // the other table sharing the session still reads its own contents
        let octx = Ctx { uri: sc.other_uri.clone(), ..self.ctx.clone() };
        match octx.open().await {
            Ok(ds) => match scan_all(&ds, true).await {
                Ok((_, rows)) => {
                    if rows != sc.other_state.rows {
                        self.res.violate("C38", "tables-independent", "second-table-content", self.step, format!("second table sharing the session: {}", diff_rows(&sc.other_state.rows, &rows)));
                    }
                }
                Err(e) => self.res.violate("C38", "tables-independent", "second-table-scan-error", self.step, e.to_string()),
            },
            Err(e) => self.res.violate("C38", "tables-independent", "second-table-open-error", self.step, e.to_string()),
        }
    }

    /// C38 differential: shared session vs fresh session for the same reads.
    pub async fn o_cache_diff(&mut self, what: &str) {
        let party: Arc<Party> = self.fresh_party();
        let fctx = self.ctx.for_party(party);
        let fresh = match fctx.open().await {
            Ok(d) => d,
            Err(e) => {
                self.res.violate("C38", "O-cache-diff", "fresh-open-error", self.step, format!("after {}: {}", what, e));
                return;
            }
        };
        if fresh.version().version != self.ds.version().version {
            // the long-lived handle may lag; refresh it (that is what a session user does)
            let _ = self.ds.checkout_latest().await;
        }
        let p = gen_pred(&mut self.rng, &self.st.cols.clone(), self.gen.next_k, 1);
        let o = ScanOpts { filter: Some(p.sql()), ..Default::default() };
        let a = scan(&self.ds, &o).await;
        let b = scan(&fresh, &o).await;
        match (a, b) {
            (Ok((_, x)), Ok((_, y))) => {
                if sorted(&x) != sorted(&y) {
                    self.res.violate("C38", "O-cache-diff", &format!("shared-vs-fresh-session:{}", what.split(':').next().unwrap_or(what)), self.step, format!("after {}: filter `{}` through the shared session vs a fresh session: {}", what, p.sql(), diff_rows(&y, &x)));
                }
            }
            (Err(e), Ok(_)) => self.res.violate("C38", "O-cache-diff", &format!("shared-session-error:{}", err_class(&e.to_string())), self.step, format!("after {}: filter `{}` fails only through the shared session: {}", what, p.sql(), e)),
            _ => {}
        }
        use lance_index::DatasetIndexExt;
        if let (Ok(ia), Ok(ib)) = (self.ds.load_indices().await, fresh.load_indices().await) {
            let mut na: Vec<String> = ia.iter().map(|i| i.name.clone()).collect();
            let mut nb: Vec<String> = ib.iter().map(|i| i.name.clone()).collect();
            na.sort();
            nb.sort();
            if na != nb {
                self.res.violate("C38", "O-cache-diff", "load-indices-shared-vs-fresh", self.step, format!("after {}: load_indices through the shared session {:?} vs fresh {:?}", what, na, nb));
            }
        }
    }

    /// C42: copy every object under the root to a new prefix, remove the original, compare.
    pub async fn o_copy_root(&mut self, tags: &BTreeMap<String, u64>) {
        let paths = self.w.list_paths("tbl/");
        for p in paths.iter() {
            if let Some(b) = self.w.get_raw(p) {
                self.w.put_raw(&format!("cp/{}", &p[4..]), b);
            }
        }
        for p in paths.iter() {
            self.w.delete_raw(p);
        }
        self.res.probe_n("objects-copied", paths.len() as u64);
        let party = self.fresh_party();
        let ctx = Ctx { uri: "sim://bucket/cp".into(), ..self.ctx.for_party(party) };
        let ds = match ctx.open().await {
            Ok(d) => d,
            Err(e) => {
                self.res.violate("C42", "copy-opens", &format!("copy-open-error:{}", err_class(&e.to_string())), self.step, format!("the copied table cannot be opened: {}", e));
                return;
            }
        };
        let latest = *self.history.keys().next_back().unwrap();
        if ds.version().version != latest {
            self.res.violate("C42", "copy-opens", "copy-latest-version", self.step, format!("copy opens at version {} original was at {}", ds.version().version, latest));
        }
        for (v, exp) in self.history.clone().iter() {
            match ds.checkout_version(*v).await {
                Ok(dv) => match scan_all(&dv, exp.order_exact).await {
                    Ok((names, rows)) => {
                        let en: Vec<String> = exp.cols.iter().map(|c| c.name.clone()).collect();
                        let ok = names == en && if exp.order_exact { rows == exp.rows } else { sorted(&rows) == exp.sorted_rows() };
                        if !ok {
                            self.res.violate("C42", "copy-reads-same", "copy-version-content", self.step, format!("copy version {}: {}", v, diff_rows(&exp.rows, &rows)));
                        }
                    }
                    Err(e) => self.res.violate("C42", "copy-reads-same", &format!("copy-version-scan-error:{}", err_class(&e.to_string())), self.step, format!("copy version {}: {}", v, e)),
                },
                Err(e) => self.res.violate("C42", "copy-reads-same", "copy-version-open-error", self.step, format!("copy version {}: {}", v, e)),
            }
        }
        for (t, v) in tags.iter() {
            match ds.checkout_version(t.as_str()).await {
                Ok(d) => {
                    if d.version().version != *v {
                        self.res.violate("C42", "copy-reads-same", "copy-tag-version", self.step, format!("tag {} resolves to {} in the copy, was {}", t, d.version().version, v));
                    }
                }
                Err(e) => self.res.violate("C42", "copy-reads-same", "copy-tag-error", self.step, format!("tag {} in the copy: {}", t, e)),
            }
        }
        // indexed queries on the copy
        self.ds = ds;
        self.o_index_diff(4).await;
        for v in self.res.violations.iter_mut() {
            if v.oracle == "O-index-diff" && (v.sig.starts_with("index-error") || v.sig.contains("drops-rows")) && !v.sig.contains(":") {
                v.prop = "C42".into();
            }
        }
    }
}

//! Sequential-engine extras: cache transparency (C38) and copied table root (C42).

use std::collections::{BTreeMap, BTreeSet};
use std::sync::Arc;

use futures::TryStreamExt;

use crate::e1::{diff_rows, err_class, sorted, Runner};
use crate::model::*;
use crate::table::*;
use crate::world::Party;

/// State of the C38 scenario: a second table sharing the session, and bookkeeping.
pub struct CacheScenario {
    pub other_uri: String,
    pub other_state: TableState,
}

impl Runner {
    /// C38 setup: replace the main party by one with the requested cache sizes is done in
    /// `Runner::setup`; here a second table sharing the same session is created.
    pub async fn cache_scenario_init(&mut self) -> Option<CacheScenario> {
        let cols = default_cols();
        let rows = self.gen.fresh_rows(&mut self.rng, &cols, 9);
        let octx = Ctx { uri: "sim://bucket/tbl2".into(), ..self.ctx.clone() };
        match octx.create(&cols, &rows, 4).await {
            Ok(_) => Some(CacheScenario { other_uri: octx.uri.clone(), other_state: TableState { cols, rows, order_exact: true, config: BTreeMap::new(), indices: vec![] } }),
            Err(e) => {
                self.res.violate("C38", "second-table", "second-table-create-error", self.step, e.to_string());
                None
            }
        }
    }

    /// C38 step: occasionally (a) another party writes and the long-lived handle refreshes,
    /// (b) the table is dropped and re-created at the same URI inside the same session.
    pub async fn cache_scenario_step(&mut self, sc: &mut CacheScenario) {
        let roll = self.rng.below(10);
        if roll < 2 {
            // foreign write by another party (own session); then the shared-session handle refreshes
            let party = self.fresh_party();
            let ctx = self.ctx.for_party(party);
            let rows = self.gen.fresh_rows(&mut self.rng, &self.st.cols.clone(), 4);
            let op = Op::Append { rows, per_file: 10, batches: 1 };
            let st = self.st.clone();
            if let Ok(mut ds) = ctx.open().await {
                if exec_op(&ctx, &mut ds, &st, &op).await.is_ok() {
                    let mut post = st.clone();
                    let _ = model_apply(&mut post, &op, &self.history);
                    let nv = ds.version().version;
                    self.lin.apply(&op, &st, &post, nv);
                    self.st = post;
                    self.history.insert(nv, self.st.clone());
                    self.res.script.push(format!("{}: foreign append by another party -> v{}", self.step, nv));
                    self.res.kinds.push("foreign-append".into());
                    self.res.probe("foreign-write");
                    if let Err(e) = self.ds.checkout_latest().await {
                        self.res.violate("C38", "refresh", "checkout-latest-error", self.step, e.to_string());
                    }
                    self.o_scan("C38", "foreign-append").await;
                }
            }
        } else if roll == 2 {
            // drop every object of the table and re-create it at the same URI with the same session
            for p in self.w.list_paths("tbl/") {
                self.w.delete_raw(&p);
            }
            {
                // the external manifest store belongs to the table's storage too
                let mut g = self.w.lock();
                let keys: Vec<_> = g.ext.keys().filter(|(b, _)| b == "tbl").cloned().collect();
                for k in keys {
                    g.ext.remove(&k);
                }
            }
            let cols = default_cols();
            let n = self.rng.range(3, 20) as usize;
            let rows = self.gen.fresh_rows(&mut self.rng, &cols, n);
            let per_file = self.rng.range(3, 10) as usize;
            match self.ctx.create(&cols, &rows, per_file).await {
                Ok(ds) => {
                    self.ds = ds;
                    self.st = TableState { cols, rows, order_exact: true, config: BTreeMap::new(), indices: vec![] };
                    self.history.clear();
                    self.history.insert(self.ds.version().version, self.st.clone());
                    self.lin = crate::lineage::Lineage::new();
                    self.lin.init(&self.st, self.ds.version().version);
                    self.seen_col_rewrite = false;
                    self.seen_defer_remap = false;
                    self.eager_after_defer = false;
                    self.rewritten_cols.clear();
                    self.res.script.push(format!("{}: drop all objects and re-create the table at the same URI (same session)", self.step));
                    self.res.kinds.push("recreate".into());
                    self.res.probe("recreated-at-same-uri");
                    self.recreated = true;
                    self.o_scan("C38", "recreate").await;
                    self.o_count("C38").await;
                    self.o_validate().await;
                    self.o_index_diff(3).await;
                }
                Err(e) => self.res.violate("C38", "recreate", &format!("recreate-error:{}", err_class(&e.to_string())), self.step, format!("re-creating the table at the same URI failed: {}", e)),
            }
        }
        // the other table sharing the session still reads its own contents
        let octx = Ctx { uri: sc.other_uri.clone(), ..self.ctx.clone() };
        match octx.open().await {
            Ok(ds) => match scan_all(&ds, true).await {
                Ok((_, rows)) => {
                    if rows != sc.other_state.rows {
                        self.res.violate("C38", "tables-independent", "second-table-content", self.step, format!("second table sharing the session: {}", diff_rows(&sc.other_state.rows, &rows)));
                    }
                }
                Err(e) => self.res.violate("C38", "tables-independent", "second-table-scan-error", self.step, e.to_string()),
            },
            Err(e) => self.res.violate("C38", "tables-independent", "second-table-open-error", self.step, e.to_string()),
        }
    }

    /// C38 differential: shared session vs fresh session for the same reads.
    pub async fn o_cache_diff(&mut self, what: &str) {
        let party: Arc<Party> = self.fresh_party();
        let fctx = self.ctx.for_party(party);
        let fresh = match fctx.open().await {
            Ok(d) => d,
            Err(e) => {
                self.res.violate("C38", "O-cache-diff", "fresh-open-error", self.step, format!("after {}: {}", what, e));
                return;
            }
        };
        if fresh.version().version != self.ds.version().version {
            // the long-lived handle may lag; refresh it (that is what a session user does)
            let _ = self.ds.checkout_latest().await;
        }
        // one fresh predicate over all columns, one over the indexed columns (if any), plus the
        // indexed predicates of earlier steps again: index pages cached for them must not be served
        // stale after compaction / remap / optimisation. Every query runs twice through the shared
        // session (the second time from its caches).
        let mut preds = vec![gen_pred(&mut self.rng, &self.st.cols.clone(), self.gen.next_k, 1)];
        let icols: Vec<ColDef> = self.st.cols.iter().filter(|c| self.st.indices.iter().any(|i| i.column == c.name)).cloned().collect();
        self.cache_preds.retain(|p| {
            let mut pc = BTreeSet::new();
            p.columns(&mut pc);
            pc.iter().all(|c| self.st.col(c).is_some())
        });
        if !icols.is_empty() {
            let np = gen_pred(&mut self.rng, &icols, self.gen.next_k, 1);
            self.cache_preds.push(np);
            if self.cache_preds.len() > 4 {
                self.cache_preds.remove(0);
            }
        }
        preds.extend(self.cache_preds.iter().cloned());
        for p in preds.iter() {
            let o = ScanOpts { filter: Some(p.sql()), ..Default::default() };
            let b = scan(&fresh, &o).await;
            for pass in 0..2 {
                let a = scan(&self.ds, &o).await;
                self.res.probe("cache-diff-queries");
                match (a, &b) {
                    (Ok((_, x)), Ok((_, y))) => {
                        if sorted(&x) != sorted(y) {
                            let tags = self.query_tags(p);
                            self.res.violate("C38", "O-cache-diff", &format!("shared-vs-fresh-session:{}{}{}", what.split(':').next().unwrap_or(what), if pass == 1 { ":second-read" } else { "" }, tags), self.step, format!("after {}: filter `{}` through the shared session (read {}) vs a fresh session: {}", what, p.sql(), pass + 1, diff_rows(y, &x)));
                            break;
                        }
                    }
                    (Err(e), Ok(_)) => {
                        self.res.violate("C38", "O-cache-diff", &format!("shared-session-error:{}", err_class(&e.to_string())), self.step, format!("after {}: filter `{}` fails only through the shared session: {}", what, p.sql(), e));
                        break;
                    }
                    _ => {}
                }
            }
        }
        use lance_index::DatasetIndexExt;
        if let (Ok(ia), Ok(ib)) = (self.ds.load_indices().await, fresh.load_indices().await) {
            let mut na: Vec<String> = ia.iter().map(|i| i.name.clone()).collect();
            let mut nb: Vec<String> = ib.iter().map(|i| i.name.clone()).collect();
            na.sort();
            nb.sort();
            if na != nb {
                self.res.violate("C38", "O-cache-diff", "load-indices-shared-vs-fresh", self.step, format!("after {}: load_indices through the shared session {:?} vs fresh {:?}", what, na, nb));
            }
        }
    }

    /// C42: copy every object under the root to a new prefix, remove the original, compare.
    pub async fn o_copy_root(&mut self, tags: &BTreeMap<String, u64>) {
        let paths = self.w.list_paths("tbl/");
        for p in paths.iter() {
            if let Some(b) = self.w.get_raw(p) {
                self.w.put_raw(&format!("cp/{}", &p[4..]), b);
            }
        }
        for p in paths.iter() {
            self.w.delete_raw(p);
        }
        self.res.probe_n("objects-copied", paths.len() as u64);
        let party = self.fresh_party();
        let ctx = Ctx { uri: "sim://bucket/cp".into(), ..self.ctx.for_party(party) };
        let ds = match ctx.open().await {
            Ok(d) => d,
            Err(e) => {
                self.res.violate("C42", "copy-opens", &format!("copy-open-error:{}", err_class(&e.to_string())), self.step, format!("the copied table cannot be opened: {}", e));
                return;
            }
        };
        let latest = *self.history.keys().next_back().unwrap();
        if ds.version().version != latest {
            self.res.violate("C42", "copy-opens", "copy-latest-version", self.step, format!("copy opens at version {} original was at {}", ds.version().version, latest));
        }
        for (v, exp) in self.history.clone().iter() {
            match ds.checkout_version(*v).await {
                Ok(dv) => match scan_all(&dv, exp.order_exact).await {
                    Ok((names, rows)) => {
                        let en: Vec<String> = exp.cols.iter().map(|c| c.name.clone()).collect();
                        let ok = names == en && if exp.order_exact { rows == exp.rows } else { sorted(&rows) == exp.sorted_rows() };
                        if !ok {
                            self.res.violate("C42", "copy-reads-same", "copy-version-content", self.step, format!("copy version {}: {}", v, diff_rows(&exp.rows, &rows)));
                        }
                    }
                    Err(e) => self.res.violate("C42", "copy-reads-same", &format!("copy-version-scan-error:{}", err_class(&e.to_string())), self.step, format!("copy version {}: {}", v, e)),
                },
                Err(e) => self.res.violate("C42", "copy-reads-same", "copy-version-open-error", self.step, format!("copy version {}: {}", v, e)),
            }
        }
        for (t, v) in tags.iter() {
            match ds.checkout_version(t.as_str()).await {
                Ok(d) => {
                    if d.version().version != *v {
                        self.res.violate("C42", "copy-reads-same", "copy-tag-version", self.step, format!("tag {} resolves to {} in the copy, was {}", t, d.version().version, v));
                    }
                }
                Err(e) => self.res.violate("C42", "copy-reads-same", "copy-tag-error", self.step, format!("tag {} in the copy: {}", t, e)),
            }
        }
        // indexed queries on the copy
        self.ds = ds;
        self.o_index_diff(4).await;
        for v in self.res.violations.iter_mut() {
            if v.oracle == "O-index-diff" && (v.sig.starts_with("index-error") || v.sig.contains("drops-rows")) && !v.sig.contains(":") {
                v.prop = "C42".into();
            }
        }
    }
}

// ---------------------------------------------------------------------------
// C22 exact vector search, C23 full-text search
// ---------------------------------------------------------------------------

fn vec_of(v: &Val) -> Option<Vec<f64>> {
    match v {
        Val::L(items) => items.iter().map(|x| x.as_f64()).collect(),
        _ => None,
    }
}

fn dist(a: &[f64], b: &[f64], cosine: bool) -> f64 {
    if cosine {
        let dot: f64 = a.iter().zip(b).map(|(x, y)| x * y).sum();
        let na: f64 = a.iter().map(|x| x * x).sum::<f64>().sqrt();
        let nb: f64 = b.iter().map(|x| x * x).sum::<f64>().sqrt();
        1.0 - dot / (na * nb)
    } else {
        a.iter().zip(b).map(|(x, y)| (x - y) * (x - y)).sum()
    }
}

/// Independent tokenizer: lower-cased maximal runs of alphanumeric characters.
pub fn tokenize(s: &str) -> Vec<String> {
    let mut out = Vec::new();
    let mut cur = String::new();
    for c in s.chars() {
        if c.is_alphanumeric() {
            cur.extend(c.to_lowercase());
        } else if !cur.is_empty() {
            out.push(std::mem::take(&mut cur));
        }
    }
    if !cur.is_empty() {
        out.push(cur);
    }
    out
}

impl Runner {
    pub async fn o_knn(&mut self, nq: usize) {
        use arrow_array::Float32Array;
        let vi = match self.st.col("vec") {
            Some(i) => i,
            None => return,
        };
        let dim = match self.st.cols[vi].ty {
            Ty::Vec(d) => d as usize,
            _ => return,
        };
        let idx_kind = self.st.indices.iter().find(|i| i.column == "vec").map(|i| i.kind.clone());
        for _ in 0..nq {
            let q: Vec<f32> = (0..dim).map(|_| (self.rng.range(-8, 8) as f32) * 0.25 + 0.125).collect();
            let qd: Vec<f64> = q.iter().map(|x| *x as f64).collect();
            let k = self.rng.range(1, 10) as usize;
            // with an index the query uses the index's metric, otherwise any
            let cosine = match idx_kind.as_deref() {
                Some("IvfFlatCosine") => true,
                Some(_) => false,
                None => self.rng.chance(0.4),
            };
            let use_index = self.rng.chance(0.7);
            let mut filter = if self.rng.chance(0.4) { Some(gen_pred(&mut self.rng, &self.st.cols.iter().filter(|c| c.name == "k" || c.name == "v").cloned().collect::<Vec<_>>(), self.gen.next_k, 0)) } else { None };
            // known finding KF-21 (an inverted BETWEEN as pre-filter of a vector query hits a DataFusion
            // internal error): generate that shape rarely
            if let Some(Pred::Between(_, Lit::I(a), Lit::I(b))) = &filter {
                if a > b && self.rng.chance(0.9) {
                    filter = None;
                }
            }
            let stable_tag = if self.ctx.stable_row_ids { ":stable-row-ids" } else { "" };
            let mut sc = self.ds.scan();
            if sc.nearest("vec", &Float32Array::from(q.clone()), k).is_err() {
                continue;
            }
            sc.distance_metric(if cosine { lance_linalg::distance::MetricType::Cosine } else { lance_linalg::distance::MetricType::L2 });
            sc.nprobes(64);
            sc.use_index(use_index);
            if let Some(p) = &filter {
                if sc.filter(&p.sql()).is_err() {
                    continue;
                }
                sc.prefilter(true);
            }
            let _ = sc.project(&["k", "img"]);
            let what = format!("nearest(vec, k={}, metric={}, use_index={}, index={:?}, prefilter={:?})", k, if cosine { "cosine" } else { "l2" }, use_index, idx_kind, filter.as_ref().map(|p| p.sql()));
            self.res.probe("knn-queries");
            let res = crate::table::with_deadline(3600, &what, async {
                let s = sc.try_into_stream().await?;
                let b: Vec<arrow_array::RecordBatch> = s.try_collect().await?;
                lance_core::Result::Ok(b)
            })
            .await;
            let batches = match res {
                Ok(b) => b,
                Err(e) => {
                    // KF-21: an empty range (BETWEEN with swapped bounds, or two comparisons
                    // that contradict each other) in the pre-filter
                    fn lit_lt(a: &Lit, b: &Lit) -> bool {
                        match (a, b) {
                            (Lit::I(x), Lit::I(y)) => x < y,
                            (Lit::F(x), Lit::F(y)) => x < y,
                            (Lit::S(x), Lit::S(y)) => x < y,
                            _ => false,
                        }
                    }
                    fn empty_range(p: &Pred) -> bool {
                        match p {
                            Pred::Between(_, a, b) => lit_lt(b, a),
                            Pred::And(x, y) => {
                                if let (Pred::Cmp(c1, o1, l1), Pred::Cmp(c2, o2, l2)) = (x.as_ref(), y.as_ref()) {
                                    if c1 == c2 {
                                        let (up, lo) = if matches!(o1, Cmp::Lt | Cmp::Le) && matches!(o2, Cmp::Gt | Cmp::Ge) {
                                            (Some(l1), Some(l2))
                                        } else if matches!(o2, Cmp::Lt | Cmp::Le) && matches!(o1, Cmp::Gt | Cmp::Ge) {
                                            (Some(l2), Some(l1))
                                        } else {
                                            (None, None)
                                        };
                                        if let (Some(u), Some(l)) = (up, lo) {
                                            let upper_strict = matches!(o1, Cmp::Lt) || matches!(o2, Cmp::Lt);
                                            let lower_strict = matches!(o1, Cmp::Gt) || matches!(o2, Cmp::Gt);
                                            if let (Lit::I(ui), Lit::I(li)) = (u, l) {
                                                // integers: no value left between the effective bounds
                                                let hi = if upper_strict { ui - 1 } else { *ui };
                                                let lo = if lower_strict { li + 1 } else { *li };
                                                if hi < lo {
                                                    return true;
                                                }
                                            } else if lit_lt(u, l) || ((upper_strict || lower_strict) && !lit_lt(l, u)) {
                                                // upper below lower, or equal bounds with a strict side
                                                return true;
                                            }
                                        }
                                    }
                                }
                                empty_range(x) || empty_range(y)
                            }
                            Pred::Or(x, y) => empty_range(x) || empty_range(y),
                            Pred::Not(x) => empty_range(x),
                            _ => false,
                        }
                    }
                    let inv = filter.as_ref().map(empty_range).unwrap_or(false);
                    self.res.violate("C22", "O-knn", &format!("knn-error:{}{}{}", err_class(&e.to_string()), if inv { ":inverted-between-prefilter" } else { "" }, if use_index && idx_kind.is_some() { stable_tag } else { "" }), self.step, format!("{} failed: {}", what, e));
                    continue;
                }
            };
            let names = batches.first().map(batch_col_names).unwrap_or_default();
            let rows = batches_to_rows(&batches);
            let (ii, di) = match (names.iter().position(|n| n == "img"), names.iter().position(|n| n == "_distance")) {
                (Some(a), Some(b)) => (a, b),
                _ => {
                    if !rows.is_empty() {
                        self.res.violate("C22", "O-knn", "knn-columns", self.step, format!("{} returned columns {:?}", what, names));
                    }
                    continue;
                }
            };
            // brute force over the model
            let imgi = self.st.col("img").unwrap();
            let mut truth: Vec<(f64, i64)> = Vec::new();
            let mut by_img: BTreeMap<i64, f64> = BTreeMap::new();
            for r in self.st.rows.iter() {
                if let Some(p) = &filter {
                    if p.eval(&self.st.cols, r) != Some(true) {
                        continue;
                    }
                }
                if let Some(v) = vec_of(&r[vi]) {
                    if cosine && v.iter().all(|x| *x == 0.0) {
                        continue;
                    }
                    let d = dist(&v, &qd, cosine);
                    truth.push((d, r[imgi].as_i64().unwrap_or(-1)));
                    by_img.insert(r[imgi].as_i64().unwrap_or(-1), d);
                }
            }
            truth.sort_by(|a, b| a.0.partial_cmp(&b.0).unwrap());
            let tol = |d: f64| 1e-3 + d.abs() * 1e-3;
            let mut prev = f64::NEG_INFINITY;
            let mut bad = false;
            for r in rows.iter() {
                let img = r[ii].as_i64().unwrap_or(-1);
                let d = r[di].as_f64().unwrap_or(f64::NAN);
                match by_img.get(&img) {
                    None => {
                        self.res.violate("C22", "O-knn", &format!("knn-returned-deleted-or-filtered-row{}", if use_index && idx_kind.is_some() { stable_tag } else { "" }), self.step, format!("{} returned image {} which is deleted, filtered out or has no vector", what, img));
                        bad = true;
                    }
                    Some(t) => {
                        if (d - t).abs() > tol(*t) {
                            self.res.violate("C22", "O-knn", &format!("knn-distance-value:{}{}", if cosine { "cosine" } else { "l2" }, if use_index && idx_kind.is_some() { stable_tag } else { "" }), self.step, format!("{}: image {} reported distance {} recomputed {}", what, img, d, t));
                            bad = true;
                        }
                    }
                }
                if d + 1e-6 < prev {
                    self.res.violate("C22", "O-knn", &format!("knn-not-sorted{}", if use_index && idx_kind.is_some() { stable_tag } else { "" }), self.step, format!("{}: distances not ascending ({} after {})", what, d, prev));
                    bad = true;
                }
                prev = d;
            }
            if bad {
                continue;
            }
            let expect_n = k.min(truth.len());
            if rows.len() != expect_n {
                self.res.violate("C22", "O-knn", &format!("knn-count:{}{}{}", if use_index && idx_kind.is_some() { "indexed" } else { "flat" }, if filter.is_some() { ":prefilter" } else { "" }, if use_index && idx_kind.is_some() { stable_tag } else { "" }), self.step, format!("{} returned {} rows, expected min(k, matches) = {}", what, rows.len(), expect_n));
                continue;
            }
            if expect_n > 0 {
                let kth_true = truth[expect_n - 1].0;
                let kth_got = rows[expect_n - 1][di].as_f64().unwrap_or(f64::NAN);
                if kth_got > kth_true + tol(kth_true) {
                    self.res.violate("C22", "O-knn", &format!("knn-not-nearest:{}{}", if use_index && idx_kind.is_some() { "indexed" } else { "flat" }, if use_index && idx_kind.is_some() { stable_tag } else { "" }), self.step, format!("{}: k-th distance {} but the true k-th smallest is {}", what, kth_got, kth_true));
                }
            }
        }
    }

    pub async fn o_fts(&mut self, nq: usize) {
        use lance_index::scalar::inverted::query::{FtsQuery, MatchQuery, Operator, PhraseQuery};
        use lance_index::scalar::FullTextSearchQuery;
        let ti = match self.st.col("txt") {
            Some(i) => i,
            None => return,
        };
        // lance requires an inverted index for full-text search
        if !self.st.indices.iter().any(|i| i.column == "txt") {
            return;
        }
        let imgi = self.st.col("img").unwrap();
        for _ in 0..nq {
            let nterms = self.rng.range(1, 3) as usize;
            // now and then a term that no document contains (AND must then match nothing, OR ignores it)
            let terms: Vec<String> = (0..nterms).map(|_| if self.rng.chance(0.15) { "zzyzx".to_string() } else { WORDS[self.rng.usize(WORDS.len())].to_string() }).collect();
            let mode = self.rng.below(3); // 0 = OR, 1 = AND, 2 = phrase
            let qtext = terms.join(" ");
            let query = match mode {
                0 => FtsQuery::Match(MatchQuery::new(qtext.clone()).with_column(Some("txt".into()))),
                1 => FtsQuery::Match(MatchQuery::new(qtext.clone()).with_column(Some("txt".into())).with_operator(Operator::And)),
                _ => FtsQuery::Phrase(PhraseQuery::new(qtext.clone()).with_column(Some("txt".into()))),
            };
            let qt: Vec<String> = tokenize(&qtext);
            let mut expect: BTreeSet<i64> = BTreeSet::new();
            for r in self.st.rows.iter() {
                if let Val::S(doc) = &r[ti] {
                    let toks = tokenize(doc);
                    let hit = match mode {
                        0 => qt.iter().any(|t| toks.contains(t)),
                        1 => qt.iter().all(|t| toks.contains(t)),
                        _ => toks.windows(qt.len()).any(|w| w == qt.as_slice()),
                    };
                    if hit {
                        expect.insert(r[imgi].as_i64().unwrap_or(-1));
                    }
                }
            }
            let what = format!("full_text_search({} {:?})", ["match-or", "match-and", "phrase"][mode as usize], qtext);
            self.res.probe("fts-queries");
            let mut sc = self.ds.scan();
            if let Err(e) = sc.full_text_search(FullTextSearchQuery::new_query(query)) {
                self.res.violate("C23", "O-fts", &format!("fts-plan-error:{}", err_class(&e.to_string())), self.step, format!("{}: {}", what, e));
                continue;
            }
            let _ = sc.project(&["k", "img"]);
            let res = crate::table::with_deadline(3600, &what, async {
                let s = sc.try_into_stream().await?;
                let b: Vec<arrow_array::RecordBatch> = s.try_collect().await?;
                lance_core::Result::Ok(b)
            })
            .await;
            let batches = match res {
                Ok(b) => b,
                Err(e) => {
                    self.res.violate("C23", "O-fts", &format!("fts-error:{}{}", err_class(&e.to_string()), if self.ctx.stable_row_ids { ":stable-row-ids" } else { "" }), self.step, format!("{} failed: {}", what, e));
                    continue;
                }
            };
            let names = batches.first().map(batch_col_names).unwrap_or_default();
            let rows = batches_to_rows(&batches);
            let ii = names.iter().position(|n| n == "img");
            let si = names.iter().position(|n| n == "_score");
            let got: BTreeSet<i64> = match ii {
                Some(i) => rows.iter().filter_map(|r| r[i].as_i64()).collect(),
                None => BTreeSet::new(),
            };
            if got != expect {
                let unindexed = self.res.kinds.iter().rev().take_while(|k| *k != "create_fts_index").any(|k| k == "append" || k == "merge" || k == "update");
                self.res.violate("C23", "O-fts", &format!("fts-match-set:{}{}{}", ["match-or", "match-and", "phrase"][mode as usize], if unindexed { ":unindexed-tail" } else { "" }, if self.ctx.stable_row_ids { ":stable-row-ids" } else { "" }), self.step, {
                    let text_of = |img: &i64| self.st.rows.iter().find(|r| r[imgi].as_i64() == Some(*img)).map(|r| format!("{}={:?}", img, r[ti])).unwrap_or_else(|| format!("{}=<not a live row>", img));
                    format!("{}: returned {} docs, expected {}; only-lance {:?} only-model {:?}", what, got.len(), expect.len(), got.difference(&expect).take(4).map(text_of).collect::<Vec<_>>(), expect.difference(&got).take(4).map(text_of).collect::<Vec<_>>())
                });
                continue;
            }
            if let Some(si) = si {
                let scores: Vec<f64> = rows.iter().filter_map(|r| r[si].as_f64()).collect();
                if scores.windows(2).any(|w| w[1] > w[0] + 1e-6) {
                    self.res.violate("C23", "O-fts", "fts-score-order", self.step, format!("{}: scores not non-increasing: {:?}", what, scores.iter().take(8).collect::<Vec<_>>()));
                }
            }
        }
    }
}

//! E1 `crash`: crash-point / fault-point sweep of one operation inside a seeded history (C01).
//!
//! After a seeded prefix the disk is snapshotted, operation X is run once fault-free by a
//! fresh party to learn its storage-call sequence, and then re-run from the snapshot once
//! per (call index, fault) with the fault planted at exactly that call. After each re-run a
//! fresh party (only durable state survives) must see exactly the pre-state versions or the
//! pre-state plus the complete new version(s); nothing partial; and must be able to write.

use std::sync::Arc;

use lance::Dataset;

use crate::e1::{diff_rows, err_class, guarded, panic_sig, sorted, Mix, Runner};
use crate::model::*;
use crate::runres::{RunCfg, RunResult};
use crate::table::*;
use crate::world::{CallKind, Decision, Party};

async fn scan_sorted(ds: &Dataset) -> Result<Vec<Row>, String> {
    match scan_all(ds, false).await {
        Ok((_, rows)) => Ok(sorted(&rows)),
        Err(e) => Err(e.to_string()),
    }
}

pub async fn run_crash(cfg: RunCfg) -> RunResult {
    let t0 = std::time::Instant::now();
    let amb = cfg.opt_bool("amb").unwrap_or(false);
    let mut r = match Runner::new(cfg.clone()).await {
        Ok(r) => r,
        Err(res) => return res,
    };
    let mix = Mix::general();
    r.gen.inexact_indices = false;
    let prefix = r.rng.range(0, 5) as u64;
    for step in 0..prefix {
        r.step = step;
        let versions: Vec<u64> = r.history.keys().cloned().collect();
        let op = {
            let Runner { gen, rng, st, .. } = &mut r;
            gen.gen_op(rng, st, &mix, &versions)
        };
        if cfg.skip.contains(&step) {
            continue;
        }
        let out = guarded(async {
            r.do_op(&op).await;
            let k = format!("{}{}", crate::e1::op_sig_kind(&op, &r.st), r.history_tags(&op, &[]));
            r.o_scan(crate::e1::prop_for_op(&op), &k).await;
        })
        .await;
        if out.is_err() || !r.res.violations.is_empty() {
            // a defect hit while building the base history is reported as such (usually a listed
            // known finding); the sweep needs a base the model agrees with
            if let Err(p) = out {
                r.res.violate(crate::e1::prop_for_op(&op), "panic", &format!("panic:{}", panic_sig(&p)), step, format!("panic in prefix {}: {}", op.brief(), p));
            }
            r.res.probe("prefix-problem");
            let mut res = r.finish();
            res.wall_ms = t0.elapsed().as_millis() as u64;
            return res;
        }
    }
    r.step = prefix;
    // operation X (must be valid on the model)
    let versions: Vec<u64> = r.history.keys().cloned().collect();
    let mut op;
    let mut post;
    let mut tries = 0;
    loop {
        op = {
            let Runner { gen, rng, st, .. } = &mut r;
            gen.gen_op(rng, st, &mix, &versions)
        };
        post = r.st.clone();
        if model_apply(&mut post, &op, &r.history).is_ok() {
            break;
        }
        tries += 1;
        if tries > 20 {
            let mut res = r.finish();
            res.wall_ms = t0.elapsed().as_millis() as u64;
            return res;
        }
    }
    let pre = r.st.clone();
    let pre_sorted = pre.sorted_rows();
    let post_sorted = post.sorted_rows();
    let n_version = r.ds.version().version;
    let snap = r.w.snapshot();
    r.res.script.push(format!("X: {}", op.brief()));
    r.res.kinds.push(format!("X:{}", op.kind()));

    // ---- dry run (fault free) by a fresh party ----
    let knobs = r.ctx.party.knobs.clone();
    let dry_actor = 500u32;
    let _ = r.w.take_log();
    let dry = guarded(async {
        let party = Arc::new(Party::new(&r.w, dry_actor, knobs.clone()));
        let ctx = r.ctx.for_party(party);
        let mut ds = ctx.open().await.map_err(|e| e.to_string())?;
        with_deadline(3600, "dry run", exec_op(&ctx, &mut ds, &pre, &op)).await.map_err(|e| e.to_string())?;
        Ok::<u64, String>(ds.version().version)
    })
    .await;
    let m_version = match dry {
        Ok(Ok(v)) => v,
        Ok(Err(e)) => {
            r.res.probe("x-fails-fault-free");
            r.res.violate("C01", "fault-free-write", &format!("unexpected-error:{}:{}", op.kind(), err_class(&e)), prefix, format!("{} failed without faults: {}", op.brief(), e));
            let mut res = r.finish();
            res.wall_ms = t0.elapsed().as_millis() as u64;
            return res;
        }
        Err(p) => {
            r.res.violate("C01", "panic", &format!("panic:{}", panic_sig(&p)), prefix, format!("panic in {}: {}", op.brief(), p));
            let mut res = r.finish();
            res.wall_ms = t0.elapsed().as_millis() as u64;
            return res;
        }
    };
    let calls: Vec<(u64, CallKind, String)> = r.w.take_log().into_iter().filter(|e| e.actor == dry_actor).map(|e| (e.seq, e.kind, e.path)).collect();
    let ncalls = calls.len() as u64;
    r.res.probe_n("x-calls", ncalls);
    if m_version == n_version {
        r.res.probe("x-noop");
    }
    // post-state must be right in the fault-free run (checked by a fresh reader)
    {
        let party = r.fresh_party();
        let ctx = r.ctx.for_party(party);
        match ctx.open().await {
            Ok(ds) => {
                if ds.version().version != m_version {
                    r.res.violate("C01", "fault-free-write", "latest-after-write", prefix, format!("writer at {}, fresh reader sees {}", m_version, ds.version().version));
                }
                match scan_sorted(&ds).await {
                    Ok(rows) if rows == post_sorted => {}
                    Ok(rows) => r.res.violate("C01", "fault-free-write", &format!("post-state:{}{}", crate::e1::op_sig_kind(&op, &pre), r.history_tags(&op, &[])), prefix, format!("{}: {}", op.brief(), diff_rows(&post.rows, &rows))),
                    Err(e) => r.res.violate("C01", "fault-free-write", "post-scan-error", prefix, e),
                }
            }
            Err(e) => r.res.violate("C01", "fault-free-write", "open-after-write", prefix, e.to_string()),
        }
    }
    if !r.res.violations.is_empty() {
        let mut res = r.finish();
        res.wall_ms = t0.elapsed().as_millis() as u64;
        return res;
    }

    // ---- the sweep ----
    let mut actor = 1000u32;
    let budget_ms: u128 = if cfg.thorough() { 60_000 } else { 20_000 };
    'outer: for (j, kind, path) in calls.iter() {
        let decisions: Vec<Decision> = if amb {
            let is_publish = matches!(crate::world::path_class(path), crate::world::PathClass::Manifest | crate::world::PathClass::ManifestStaging) || matches!(kind, CallKind::ExtPutIfNotExists | CallKind::ExtPutIfExists);
            if is_publish && kind.is_mutating() {
                let mut v = vec![Decision::FailPost];
                if matches!(kind, CallKind::PutCreate | CallKind::CopyIfNotExists | CallKind::ExtPutIfNotExists) {
                    v.push(Decision::Dup);
                }
                v
            } else {
                vec![]
            }
        } else if kind.is_mutating() {
            vec![Decision::CrashPre, Decision::CrashPost, Decision::FailPre]
        } else {
            vec![Decision::CrashPre, Decision::FailPre]
        };
        for d in decisions {
            if t0.elapsed().as_millis() > budget_ms {
                r.res.probe("sweep-truncated");
                break 'outer;
            }
            actor += 1;
            r.w.restore(&snap);
            r.w.set_plan(actor, *j, d);
            r.res.subcases += 1;
            let party = Arc::new(Party::new(&r.w, actor, knobs.clone()));
            let ctx = r.ctx.for_party(party);
            let opres = guarded(async {
                let mut ds = ctx.open().await.map_err(|e| e.to_string())?;
                with_deadline(3600, "crash run", exec_op(&ctx, &mut ds, &pre, &op)).await.map_err(|e| e.to_string())?;
                Ok::<u64, String>(ds.version().version)
            })
            .await;
            r.w.clear_plan();
            r.w.kill(actor); // whatever it was doing, it is gone now
            let what = format!("{} with {} at call #{} ({} {})", op.brief(), d.short(), j, kind.short(), crate::world::canon_path(path));
            let reported_ok = match &opres {
                Ok(Ok(_)) => true,
                Ok(Err(_)) => false,
                Err(p) => {
                    r.res.violate("C01", "panic", &format!("panic:{}", panic_sig(p)), prefix, format!("panic in {}: {}", what, p));
                    continue;
                }
            };
            if reported_ok {
                r.res.probe("op-ok-despite-fault");
            }
            // recovery by a fresh party
            let rec = guarded(check_recovery(&mut r, &pre_sorted, &post_sorted, n_version, m_version, reported_ok, &what, &op, amb, d)).await;
            if let Err(p) = rec {
                r.res.violate("C01", "panic", &format!("panic-in-recovery:{}", panic_sig(&p)), prefix, format!("panic while reading after {}: {}", what, p));
            }
            if r.res.violations.len() >= 4 {
                break 'outer;
            }
        }
    }
    r.res.nontrivial = r.res.subcases > 0;
    r.res.interleaving_hash = crate::rng::mix(&[crate::rng::hash_str(op.kind()), ncalls, prefix, r.res.kinds.iter().map(|k| crate::rng::hash_str(k)).fold(0, |a, b| a ^ b)]);
    let mut res = r.finish();
    res.wall_ms = t0.elapsed().as_millis() as u64;
    res
}

#[allow(clippy::too_many_arguments)]
async fn check_recovery(r: &mut Runner, pre: &[Row], post: &[Row], n: u64, m: u64, reported_ok: bool, what: &str, op: &Op, amb: bool, d: Decision) {
    let step = r.step;
    let party = r.fresh_party();
    let ctx = r.ctx.for_party(party);
    let tag = if amb { format!(":{}", d.short()) } else { String::new() };
    let mut ds = match ctx.open().await {
        Ok(ds) => ds,
        Err(e) => {
            r.res.violate("C01", "recovery-open", &format!("cannot-open-after-fault:{:?}{}", ctx.hk, tag), step, format!("after {}: open failed: {}", what, e));
            return;
        }
    };
    let l = ds.version().version;
    if l < n || l > m {
        r.res.violate("C01", "recovery-version", &format!("latest-out-of-range:{}{}", op.kind(), tag), step, format!("after {}: latest={} expected within {}..={}", what, l, n, m));
    }
    if reported_ok && l != m {
        r.res.violate("C01", "ack-durable", &format!("ok-but-not-latest:{}{}", op.kind(), tag), step, format!("after {}: operation returned Ok but latest={} (fault-free run ends at {})", what, l, m));
    }
    // every new version is the pre-state or the complete post-state, never anything else
    let mut seen_post = false;
    for v in (n + 1)..=l.min(m + 2) {
        match ds.checkout_version(v).await {
            Ok(dv) => match scan_sorted(&dv).await {
                Ok(rows) => {
                    let is_pre = rows == pre;
                    let is_post = rows == post;
                    if !is_pre && !is_post {
                        r.res.violate("C01", "atomic", &format!("partial-state:{}{}", op.kind(), tag), step, format!("after {}: version {} is neither pre nor post state: vs post {}", what, v, diff_rows(post, &rows)));
                    }
                    if seen_post && !is_post {
                        r.res.violate("C01", "atomic", &format!("post-then-pre:{}{}", op.kind(), tag), step, format!("after {}: version {} went back to the pre-state", what, v));
                    }
                    if is_post && !is_pre {
                        seen_post = true;
                    }
                }
                Err(e) => r.res.violate("C01", "atomic", &format!("version-unreadable:{}:{}{}", op.kind(), err_class(&e), tag), step, format!("after {}: scan of version {} failed: {}", what, v, e)),
            },
            Err(e) => r.res.violate("C01", "dense-versions", &format!("version-missing:{}{}", op.kind(), tag), step, format!("after {}: version {} of 1..={} cannot be opened: {}", what, v, l, e)),
        }
    }
    if reported_ok && pre != post && !seen_post && l > n {
        r.res.violate("C01", "ack-durable", &format!("ok-but-effect-missing:{}{}", op.kind(), tag), step, format!("after {}: Ok returned but no version shows the post-state", what));
    }
    match ds.versions().await {
        Ok(vs) => {
            let got: Vec<u64> = vs.iter().map(|v| v.version).collect();
            let exp: Vec<u64> = (1..=l).collect();
            if got != exp {
                r.res.violate("C01", "dense-versions", &format!("versions-not-dense:{}{}", op.kind(), tag), step, format!("after {}: versions()={:?} expected 1..={}", what, got, l));
            }
        }
        Err(e) => r.res.violate("C01", "dense-versions", "versions-error", step, format!("after {}: versions() failed: {}", what, e)),
    }
    if let Err(e) = ds.validate().await {
        r.res.violate("C05", "O-validate", &format!("validate-after-fault:{}", err_class(&e.to_string())), step, format!("after {}: validate failed: {}", what, e));
    }
    // liveness + dense numbering: a following append lands on latest+1
    let cur = match scan_all(&ds, false).await {
        Ok((names, rows)) => (names, rows),
        Err(_) => return,
    };
    let post_cols = r_cols_after(r, op);
    let names_of = |c: &[ColDef]| c.iter().map(|x| x.name.clone()).collect::<Vec<_>>();
    // names and types (a cast keeps the names): compare with the table's actual arrow schema
    let actual: Vec<(String, arrow_schema::DataType)> = {
        let sch: arrow_schema::Schema = ds.schema().into();
        sch.fields().iter().map(|f| (f.name().clone(), f.data_type().clone())).collect()
    };
    let sig_of = |c: &[ColDef]| c.iter().map(|x| (x.name.clone(), x.ty.arrow())).collect::<Vec<_>>();
    let cols: Vec<ColDef> = if names_of(&post_cols) == cur.0 && sig_of(&post_cols) == actual {
        post_cols
    } else if names_of(&r.st.cols) == cur.0 && sig_of(&r.st.cols) == actual {
        r.st.cols.clone()
    } else {
        r.res.violate("C01", "atomic", &format!("schema-neither-pre-nor-post:{}{}", op.kind(), tag), step, format!("after {}: columns {:?}", what, cur.0));
        return;
    };
    let extra = r.gen.fresh_rows(&mut r.rng, &cols, 1);
    let append = Op::Append { rows: extra.clone(), per_file: 10, batches: 1 };
    let st = TableState { cols: cols.clone(), rows: vec![], order_exact: false, config: Default::default(), indices: vec![] };
    match with_deadline(3600, "append after recovery", exec_op(&ctx, &mut ds, &st, &append)).await {
        Ok(()) => {
            if ds.version().version != l + 1 {
                r.res.violate("C01", "dense-versions", &format!("append-after-fault-version:{}{}", op.kind(), tag), step, format!("after {}: append landed on version {} expected {}", what, ds.version().version, l + 1));
            }
            match scan_sorted(&ds).await {
                Ok(rows) => {
                    let mut exp = sorted(&cur.1);
                    exp.extend(extra);
                    exp.sort();
                    if rows != exp {
                        r.res.violate("C01", "atomic", &format!("append-after-fault-content:{}{}", op.kind(), tag), step, format!("after {}: append result differs: {}", what, diff_rows(&exp, &rows)));
                    }
                }
                Err(e) => r.res.violate("C01", "atomic", &format!("scan-after-append-error:{}{}", op.kind(), tag), step, format!("after {}: {}", what, e)),
            }
        }
        Err(e) => r.res.violate("C01", "liveness", &format!("cannot-write-after-fault:{:?}:{}{}", ctx.hk, err_class(&e.to_string()), tag), step, format!("after {}: a fresh writer cannot append: {}", what, e)),
    }
}

fn r_cols_after(r: &Runner, op: &Op) -> Vec<ColDef> {
    let mut st = r.st.clone();
    let _ = model_apply(&mut st, op, &r.history);
    st.cols
}

//! E1: histories on one table through the public Dataset API.

use std::collections::{BTreeMap, BTreeSet};
use std::sync::Arc;

use lance_index::DatasetIndexExt;
use lance::Dataset;
use lance_file::version::LanceFileVersion;

use crate::handlers::HandlerKind;
use crate::model::*;
use crate::rng::Rng;
use crate::runres::{RunCfg, RunResult};
use crate::table::*;
use crate::world::{LanceKnobs, Party, World};

pub const URI: &str = "sim://bucket/tbl";
pub const ROOT: &str = "tbl";

/// Operation weights.
#[derive(Clone, Debug)]
pub struct Mix {
    pub append: u32,
    pub overwrite: u32,
    pub delete: u32,
    pub update: u32,
    pub merge: u32,
    pub merge_partial: u32,
    pub compact: u32,
    pub create_index: u32,
    pub optimize: u32,
    pub drop_index: u32,
    pub add_col: u32,
    pub drop_col: u32,
    pub rename_col: u32,
    pub config: u32,
    pub restore: u32,
}

impl Mix {
    pub fn general() -> Self {
        Self {
            append: 20,
            overwrite: 2,
            delete: 14,
            update: 12,
            merge: 10,
            merge_partial: 5,
            compact: 8,
            create_index: 6,
            optimize: 4,
            drop_index: 1,
            add_col: 4,
            drop_col: 2,
            rename_col: 1,
            config: 2,
            restore: 2,
        }
    }
    pub fn for_prop(prop: &str) -> Self {
        let mut m = Self::general();
        match prop {
            "C11" => {
                m = Self { append: 30, overwrite: 8, delete: 0, update: 0, merge: 0, merge_partial: 0, compact: 0, create_index: 0, optimize: 0, drop_index: 0, add_col: 0, drop_col: 0, rename_col: 0, config: 0, restore: 0 };
            }
            "C12" => {
                m = Self { append: 10, overwrite: 1, delete: 20, update: 20, merge: 20, merge_partial: 8, compact: 4, create_index: 5, optimize: 1, drop_index: 0, add_col: 1, drop_col: 0, rename_col: 0, config: 0, restore: 0 };
            }
            "C13" => {
                m.compact = 25;
                m.create_index = 10;
                m.restore = 0;
                m.overwrite = 0;
            }
            "C14" => {
                m.add_col = 20;
                m.drop_col = 10;
                m.rename_col = 8;
                m.restore = 0;
                m.overwrite = 1;
            }
            "C07" => {
                m.restore = 14;
            }
            "C19" | "C20" => {
                m.create_index = 16;
                m.optimize = 10;
                m.compact = 10;
                m.restore = 0;
                m.overwrite = 0;
                m.drop_col = 0;
                m.rename_col = 0;
            }
            "C17" => {
                m.overwrite = 0;
                m.restore = 0;
                m.update = 18;
                m.merge = 14;
                m.merge_partial = 8;
                m.compact = 12;
            }
            "C18" | "C15" => {
                m.overwrite = 1;
                m.update = 18;
                m.merge = 14;
                m.compact = 12;
                m.restore = 3;
            }
            "C16" => {
                // exact indices matter here: "index use" is one of the execution knobs
                m.create_index = 12;
                m.optimize = 4;
                m.restore = 0;
            }
            "C22" | "C23" => {
                m = Self { append: 25, overwrite: 0, delete: 14, update: 5, merge: 5, merge_partial: 0, compact: 10, create_index: 14, optimize: 10, drop_index: 0, add_col: 0, drop_col: 0, rename_col: 0, config: 0, restore: 0 };
            }
            "C38" => {
                m.create_index = 10;
                m.optimize = 5;
                m.restore = 3;
                m.overwrite = 3;
            }
            _ => {}
        }
        m
    }
    fn weights(&self) -> Vec<u32> {
        vec![
            self.append,
            self.overwrite,
            self.delete,
            self.update,
            self.merge,
            self.merge_partial,
            self.compact,
            self.create_index,
            self.optimize,
            self.drop_index,
            self.add_col,
            self.drop_col,
            self.rename_col,
            self.config,
            self.restore,
        ]
    }
}

/// Generator state.
pub struct Gen {
    pub next_k: i64,
    pub next_img: i64,
    pub opno: u32,
    pub next_col: u32,
    pub inexact_indices: bool,
    pub exact_indices: bool,
    pub allow_defer_remap: bool,
    /// per-run probability that a compaction defers the index remap (swarm knob, C13 only)
    pub defer_rate: f64,
    /// generated rows carry no NULL and no empty string (legacy file format runs: KF-26)
    pub no_nulls: bool,
}

impl Gen {
    pub fn new() -> Self {
        Self { next_k: 0, next_img: 1, opno: 0, next_col: 0, inexact_indices: true, exact_indices: true, allow_defer_remap: false, defer_rate: 0.2, no_nulls: false }
    }
    pub fn fresh_rows(&mut self, rng: &mut Rng, cols: &[ColDef], n: usize) -> Vec<Row> {
        (0..n)
            .map(|_| {
                let k = self.next_k;
                self.next_k += 1;
                let img = self.next_img;
                self.next_img += 1;
                let no_nulls = self.no_nulls;
                cols.iter()
                    .map(|c| {
                        let v = gen_val(rng, c, k, img);
                        if !no_nulls {
                            return v;
                        }
                        match (&v, c.ty) {
                            (Val::Null, Ty::I64 | Ty::I32) => Val::I(0),
                            (Val::Null, Ty::F64) => Val::f(0.5),
                            (Val::Null, Ty::Str) => Val::S("n".into()),
                            (Val::Null, Ty::Bool) => Val::B(false),
                            (Val::S(x), _) if x.is_empty() => Val::S("e".into()),
                            _ => v,
                        }
                    })
                    .collect()
            })
            .collect()
    }
    fn img_delta(&mut self) -> i64 {
        let d = (1i64 << self.opno.min(42)) * 1_000_000;
        self.opno += 1;
        d
    }

    pub fn gen_op(&mut self, rng: &mut Rng, st: &TableState, mix: &Mix, versions: &[u64]) -> Op {
        let kmax = self.next_k;
        for _ in 0..50 {
            let which = rng.weighted(&mix.weights());
            match which {
                0 => {
                    let n = rng.range(1, 30) as usize;
                    let rows = self.fresh_rows(rng, &st.cols, n);
                    return Op::Append { rows, per_file: rng.range(3, 20) as usize, batches: rng.range(1, 3) as usize };
                }
                1 => {
                    let n = rng.range(0, 25) as usize;
                    let rows = self.fresh_rows(rng, &st.cols, n);
                    return Op::Overwrite { rows, per_file: rng.range(3, 20) as usize };
                }
                2 => {
                    return Op::Delete { pred: gen_pred(rng, &st.cols, kmax, 2) };
                }
                3 => {
                    let mut sets = vec![("img".to_string(), SetExpr::AddI("img".into(), self.img_delta()))];
                    let cands: Vec<&ColDef> = st.cols.iter().filter(|c| c.name != "k" && c.name != "img" && matches!(c.ty, Ty::I64 | Ty::Str | Ty::F64 | Ty::Bool | Ty::I32)).collect();
                    if !cands.is_empty() {
                        let c = *rng.pick(&cands);
                        let e = match rng.below(4) {
                            0 if c.nullable => SetExpr::Null,
                            1 if c.ty == Ty::I64 => SetExpr::AddI(c.name.clone(), rng.range(-3, 7)),
                            _ => SetExpr::Lit(gen_lit(rng, c)),
                        };
                        sets.push((c.name.clone(), e));
                    }
                    return Op::Update { sets, pred: gen_pred(rng, &st.cols, kmax, 1) };
                }
                4 | 5 => {
                    let partial = which == 5;
                    if partial && st.col("v").is_none() {
                        continue;
                    }
                    let src_cols: Vec<String> = if partial {
                        vec!["k".into(), "img".into(), "v".into()]
                    } else {
                        st.cols.iter().map(|c| c.name.clone()).collect()
                    };
                    let cols: Vec<ColDef> = src_cols.iter().map(|n| st.cols.iter().find(|c| &c.name == n).unwrap().clone()).collect();
                    let existing: Vec<i64> = st.rows.iter().filter_map(|r| r[0].as_i64()).collect();
                    let n = rng.range(1, 12) as usize;
                    let mut rows = Vec::new();
                    let dup = rng.chance(0.08);
                    for i in 0..n {
                        let from_existing = !existing.is_empty() && rng.chance(0.6);
                        let k = if from_existing {
                            *rng.pick(&existing)
                        } else {
                            let k = self.next_k;
                            self.next_k += 1;
                            k
                        };
                        let img = self.next_img;
                        self.next_img += 1;
                        rows.push(cols.iter().map(|c| gen_val(rng, c, k, img)).collect::<Row>());
                        if dup && from_existing && rows.len() == 1 + i.min(0) && i == 0 {
                            let img = self.next_img;
                            self.next_img += 1;
                            rows.push(cols.iter().map(|c| gen_val(rng, c, k, img)).collect::<Row>());
                        }
                    }
                    if !dup {
                        // make keys unique within the source
                        let mut seen = BTreeSet::new();
                        rows.retain(|r| seen.insert(r[0].clone()));
                    }
                    let (wm, wnm, by_source) = if partial {
                        (WhenMatched::UpdateAll, WhenNotMatched::DoNothing, BySource::Keep)
                    } else {
                        let wm = match rng.below(10) {
                            0..=5 => WhenMatched::UpdateAll,
                            6..=8 => WhenMatched::DoNothing,
                            _ => WhenMatched::Fail,
                        };
                        let wnm = if rng.chance(0.75) { WhenNotMatched::InsertAll } else { WhenNotMatched::DoNothing };
                        let bs = match rng.below(10) {
                            0 => BySource::Delete,
                            1 | 2 => BySource::DeleteIf(gen_pred(rng, &st.cols, kmax, 0)),
                            _ => BySource::Keep,
                        };
                        if wm == WhenMatched::DoNothing && wnm == WhenNotMatched::DoNothing && matches!(bs, BySource::Keep) {
                            continue;
                        }
                        (wm, wnm, bs)
                    };
                    return Op::Merge { src_cols, rows, wm, wnm, by_source, use_index: rng.chance(0.7) };
                }
                6 => {
                    return Op::Compact {
                        target_rows: *rng.pick(&[5usize, 10, 20, 50, 1000]),
                        materialize: rng.chance(0.8),
                        threshold: *rng.pick(&[0.0f32, 0.1, 0.5, 2.0]),
                        defer_remap: rng.chance(self.defer_rate) && self.allow_defer_remap,
                    };
                }
                7 if st.col("vec").is_some() => {
                    // search tables: vector and full-text indices
                    if rng.chance(0.5) {
                        let live = st.rows.len().max(1);
                        return Op::CreateVectorIndex { partitions: (rng.range(1, 4) as usize).min(live), cosine: rng.chance(0.4) };
                    }
                    return Op::CreateFtsIndex;
                }
                7 => {
                    let mut cands: Vec<(&str, IdxKind)> = Vec::new();
                    if self.exact_indices {
                        cands.extend([("k", IdxKind::BTree), ("k", IdxKind::Bitmap), ("v", IdxKind::BTree), ("v", IdxKind::Bitmap), ("s", IdxKind::BTree), ("s", IdxKind::Bitmap), ("f", IdxKind::BTree)]);
                    }
                    if self.inexact_indices {
                        cands.extend([("v", IdxKind::ZoneMap), ("v", IdxKind::BloomFilter), ("s", IdxKind::NGram), ("f", IdxKind::ZoneMap), ("s", IdxKind::BloomFilter), ("k", IdxKind::ZoneMap)]);
                    }
                    let cands: Vec<_> = cands.into_iter().filter(|(c, _)| st.col(c).is_some()).collect();
                    if cands.is_empty() {
                        continue;
                    }
                    let (c, kind) = rng.pick(&cands).clone();
                    let params = match kind {
                        IdxKind::ZoneMap => Some(format!("{{\"rows_per_zone\": {}}}", rng.pick(&[4u64, 16, 64, 8192]))),
                        IdxKind::BloomFilter => Some(format!("{{\"number_of_items\": {}, \"probability\": {}}}", rng.pick(&[8u64, 64, 8192]), rng.pick(&[0.3f64, 0.01, 0.00057]))),
                        _ => None,
                    };
                    return Op::CreateIndex { col: c.to_string(), kind, name: format!("{}_idx", c), replace: true, params };
                }
                8 => {
                    if st.indices.is_empty() {
                        continue;
                    }
                    return Op::OptimizeIndices { num_to_merge: if rng.chance(0.5) { None } else { Some(rng.range(0, 3) as usize) } };
                }
                9 => {
                    if st.indices.is_empty() {
                        continue;
                    }
                    return Op::DropIndex { name: rng.pick(&st.indices).name.clone() };
                }
                10 => {
                    let name = format!("c{}", self.next_col);
                    self.next_col += 1;
                    if rng.chance(0.3) {
                        return Op::AddColNull { name, ty: *rng.pick(&[Ty::I64, Ty::Str, Ty::F64]) };
                    }
                    if rng.chance(0.3) {
                        // Dataset::merge with a right side covering every key (lance refuses to
                        // write NULLs for unmatched left rows of these types)
                        let ki = st.col("k").unwrap();
                        let mut keys: Vec<i64> = st.rows.iter().filter_map(|r| r[ki].as_i64()).collect();
                        keys.sort();
                        keys.dedup();
                        return Op::MergeCols { name, keys, mul: rng.range(2, 5) };
                    }
                    let from = if st.col("v").map(|i| st.cols[i].ty == Ty::I64).unwrap_or(false) && rng.chance(0.6) { "v" } else { "k" };
                    return Op::AddColSql { name, ty: Ty::I64, from: from.into(), add: rng.range(-2, 9) };
                }
                11 => {
                    let cands: Vec<&ColDef> = st.cols.iter().filter(|c| c.name != "k" && c.name != "img").collect();
                    if cands.len() <= 1 {
                        continue;
                    }
                    // prefer dropping added columns
                    let added: Vec<&&ColDef> = cands.iter().filter(|c| c.name.starts_with('c') || c.name.starts_with('d')).collect();
                    let c = if !added.is_empty() && rng.chance(0.7) { **rng.pick(&added) } else { *rng.pick(&cands) };
                    return Op::DropCol { name: c.name.clone() };
                }
                12 if rng.chance(0.55) => {
                    let cands: Vec<&ColDef> = st.cols.iter().filter(|c| c.name.starts_with('c')).collect();
                    if cands.is_empty() {
                        continue;
                    }
                    let c = *rng.pick(&cands);
                    return Op::RenameCol { from: c.name.clone(), to: format!("d{}", &c.name[1..]) };
                }
                12 => {
                    // cast an unindexed BIGINT column (not the key / image columns) in place
                    let cands: Vec<&ColDef> = st.cols.iter().filter(|c| matches!(c.ty, Ty::I64 | Ty::I32) && c.name != "k" && c.name != "img" && !st.indices.iter().any(|i| i.column == c.name)).collect();
                    if cands.is_empty() {
                        continue;
                    }
                    let c = *rng.pick(&cands);
                    return Op::CastCol { name: c.name.clone(), to: if c.ty == Ty::I64 { Ty::I32 } else { Ty::I64 } };
                }
                13 => {
                    let key = format!("cfg{}", rng.below(3));
                    let value = if rng.chance(0.75) { Some(format!("val{}", rng.below(100))) } else { None };
                    if value.is_none() && !st.config.contains_key(&key) {
                        continue;
                    }
                    return Op::UpdateConfig { key, value };
                }
                14 => {
                    if versions.len() < 2 {
                        continue;
                    }
                    return Op::Restore { version: *rng.pick(versions) };
                }
                _ => unreachable!(),
            }
        }
        let rows = self.fresh_rows(rng, &st.cols, 3);
        Op::Append { rows, per_file: 10, batches: 1 }
    }
}

pub fn prop_for_op(op: &Op) -> &'static str {
    match op {
        Op::Append { .. } | Op::Overwrite { .. } => "C11",
        Op::Delete { .. } | Op::Update { .. } | Op::Merge { .. } => "C12",
        Op::Compact { .. } => "C13",
        Op::AddColSql { .. } | Op::AddColNull { .. } | Op::DropCol { .. } | Op::RenameCol { .. } | Op::CastCol { .. } | Op::MergeCols { .. } => "C14",
        Op::Restore { .. } => "C07",
        Op::CreateIndex { .. } | Op::DropIndex { .. } | Op::OptimizeIndices { .. } => "C19",
        Op::CreateVectorIndex { .. } => "C22",
        Op::CreateFtsIndex => "C23",
        Op::UpdateConfig { .. } => "C05",
    }
}

pub fn diff_rows(expected: &[Row], got: &[Row]) -> String {
    let mut e = expected.to_vec();
    let mut g = got.to_vec();
    e.sort();
    g.sort();
    let es: BTreeSet<&Row> = e.iter().collect();
    let gs: BTreeSet<&Row> = g.iter().collect();
    let missing: Vec<String> = es.difference(&gs).take(4).map(|r| show_row(r)).collect();
    let extra: Vec<String> = gs.difference(&es).take(4).map(|r| show_row(r)).collect();
    format!(
        "expected {} rows, got {}; missing(first)={:?} unexpected(first)={:?}{}",
        expected.len(),
        got.len(),
        missing,
        extra,
        if missing.is_empty() && extra.is_empty() { " (same set: multiplicity or order differs)" } else { "" }
    )
}

pub fn show_row(r: &Row) -> String {
    format!("({})", r.iter().map(|v| v.show()).collect::<Vec<_>>().join(","))
}

/// Sequential-history runner with all per-step oracles.
pub struct Runner {
    pub cfg: RunCfg,
    pub rng: Rng,
    pub w: Arc<World>,
    pub ctx: Ctx,
    pub ds: Dataset,
    pub st: TableState,
    pub history: BTreeMap<u64, TableState>,
    pub gen: Gen,
    pub res: RunResult,
    pub next_actor: u32,
    pub step: u64,
    /// history contained a column-rewriting (partial schema) merge_insert while an index existed
    pub seen_col_rewrite: bool,
    /// columns rewritten in place (Update/RewriteColumns) by a partial-schema merge_insert
    pub rewritten_cols: BTreeSet<String>,
    /// C38: predicates over indexed columns that are re-issued through the long-lived session
    pub cache_preds: Vec<Pred>,
    /// a compaction with immediate index remap ran while a deferred remap was still pending
    pub eager_after_defer: bool,
    /// history contained a compaction with deferred index remap while an index existed
    pub seen_defer_remap: bool,
    pub lin: crate::lineage::Lineage,
    /// the table was dropped and re-created at the same URI within the session (C38 scenario)
    pub recreated: bool,
}

impl Runner {
    pub fn fresh_party(&mut self) -> Arc<Party> {
        let id = self.next_actor;
        self.next_actor += 1;
        Arc::new(Party::new(&self.w, id, self.ctx.party.knobs.clone()))
    }

    pub async fn setup(cfg: &RunCfg, rng: &mut Rng, res: &mut RunResult) -> Result<(Arc<World>, Ctx, Dataset, TableState, Gen), String> {
        let w = World::new();
        let hk = match cfg.opt("handler").and_then(HandlerKind::parse) {
            Some(h) => h,
            None => *rng.pick(&HandlerKind::ATOMIC),
        };
        let knobs = LanceKnobs {
            block_size: *rng.pick(&[512usize, 4096, 65536]),
            io_parallelism: *rng.pick(&[2usize, 4, 8, 16]),
            download_retry_count: rng.range(0, 3) as usize,
            list_is_lexically_ordered: rng.chance(0.7),
        };
        {
            let mut g = w.lock();
            g.knobs.list_lexical = knobs.list_is_lexically_ordered || rng.chance(0.5);
            g.knobs.list_salt = rng.next_u64();
            g.knobs.delete_missing_ok = rng.chance(0.5);
        }
        let hk = if cfg.prop == "C42" && hk == HandlerKind::External { HandlerKind::CondPut } else { hk };
        let party = if cfg.prop == "C38" {
            let sz = *rng.pick(&[0usize, 2_000, 64 << 20]);
            let sz2 = *rng.pick(&[0usize, 2_000, 64 << 20]);
            res.knobs.insert("index_cache_bytes".into(), sz.to_string());
            res.knobs.insert("metadata_cache_bytes".into(), sz2.to_string());
            Arc::new(Party::with_caches(&w, 0, knobs.clone(), sz, sz2))
        } else {
            Arc::new(Party::new(&w, 0, knobs.clone()))
        };
        let mut ctx = Ctx::new(party, URI, hk);
        ctx.stable_row_ids = cfg.opt_bool("stable").unwrap_or_else(|| rng.chance(0.5));
        ctx.v2_paths = cfg.opt_bool("v2paths").unwrap_or_else(|| rng.chance(0.8));
        ctx.storage_version = match cfg.opt("storage") {
            Some("legacy") => LanceFileVersion::Legacy,
            Some("2.0") => LanceFileVersion::V2_0,
            Some("2.1") => LanceFileVersion::V2_1,
            Some("2.2") => LanceFileVersion::V2_2,
            // the legacy format is exercised by the write/read round-trip check only
            _ if cfg.prop == "C11" => *rng.pick(&[LanceFileVersion::Legacy, LanceFileVersion::V2_0, LanceFileVersion::V2_1, LanceFileVersion::V2_2]),
            _ => *rng.pick(&[LanceFileVersion::V2_0, LanceFileVersion::V2_0, LanceFileVersion::V2_1, LanceFileVersion::V2_2]),
        };
        let mut legacy_no_nulls = false;
        if cfg.prop == "C11" {
            ctx.rows_per_group = *rng.pick(&[1024usize, 10, 7, 3, 2]);
            res.knobs.insert("max_rows_per_group".into(), ctx.rows_per_group.to_string());
            // the legacy format stores NULLs of fixed-width columns as 0 and cannot tell '' from
            // NULL (KF-26): most legacy runs avoid both so that other defects stay visible
            if ctx.storage_version == LanceFileVersion::Legacy {
                legacy_no_nulls = rng.chance(0.85);
                res.knobs.insert("legacy_rows_without_nulls".into(), legacy_no_nulls.to_string());
            }
        }
        res.knobs.insert("handler".into(), format!("{:?}", hk));
        res.knobs.insert("stable_row_ids".into(), ctx.stable_row_ids.to_string());
        res.knobs.insert("v2_paths".into(), ctx.v2_paths.to_string());
        res.knobs.insert("storage".into(), format!("{}", ctx.storage_version));
        res.knobs.insert("store".into(), format!("{:?}", knobs));
        let mut gen = Gen::new();
        gen.no_nulls = legacy_no_nulls;
        crate::model::RICH_STRINGS.store(cfg.prop == "C20", std::sync::atomic::Ordering::Relaxed);
        // Known finding (scalar index + stable row ids + update returns stale matches, see
        // known_findings.jsonl): only the index checks themselves combine the two.
        if ctx.stable_row_ids && !matches!(cfg.prop.as_str(), "C19" | "C20") {
            gen.exact_indices = false;
            gen.inexact_indices = false;
        }
        let mut cols = default_cols();
        if matches!(cfg.prop.as_str(), "C22" | "C23") {
            let dim = *rng.pick(&[2i32, 3, 5, 8, 13]);
            cols.push(ColDef { name: "vec".into(), ty: Ty::Vec(dim), nullable: true });
            cols.push(ColDef { name: "txt".into(), ty: Ty::Str, nullable: true });
            gen.exact_indices = false;
            gen.inexact_indices = false;
        }
        let mut st = TableState { cols, rows: vec![], order_exact: true, config: BTreeMap::new(), indices: vec![] };
        let n0 = rng.range(5, 40) as usize;
        st.rows = gen.fresh_rows(rng, &st.cols, n0);
        let per_file = rng.range(3, 20) as usize;
        if std::env::var("VERIF_DEBUG_FRAGS").is_ok() {
            eprintln!("step create {} rows per_file {} knobs {:?}", st.rows.len(), per_file, res.knobs);
        }
        let ds = ctx.create(&st.cols, &st.rows, per_file).await.map_err(|e| format!("create failed: {}", e))?;
        Ok((w, ctx, ds, st, gen))
    }

    pub async fn new(cfg: RunCfg) -> Result<Self, RunResult> {
        let mut res = RunResult::new(&cfg);
        let mut rng = Rng::new(cfg.seed);
        match Self::setup(&cfg, &mut rng, &mut res).await {
            Ok((w, ctx, ds, st, gen)) => {
                let mut history = BTreeMap::new();
                history.insert(ds.version().version, st.clone());
                let mut lin = crate::lineage::Lineage::new();
                lin.init(&st, ds.version().version);
                Ok(Self { cfg, rng, w, ctx, ds, st, history, gen, res, next_actor: 100, step: 0, seen_col_rewrite: false, rewritten_cols: BTreeSet::new(), cache_preds: Vec::new(), eager_after_defer: false, seen_defer_remap: false, lin, recreated: false })
            }
            Err(e) => {
                res.violate("C11", "create", "create-failed", 0, e);
                Err(res)
            }
        }
    }

    /// Execute one op on lance and model; record outcome. Returns true if a new version was made.
    pub async fn do_op(&mut self, op: &Op) -> bool {
        let before = self.ds.version().version;
        if std::env::var("VERIF_DEBUG_FRAGS").is_ok() {
            eprintln!("begin step {} {}", self.step, op.brief());
        }
        self.note_history(op);
        let mut expect = self.st.clone();
        let model_res = model_apply(&mut expect, op, &self.history);
        let r = with_deadline(3600, &op.brief(), exec_op(&self.ctx, &mut self.ds, &self.st, op)).await;
        self.res.script.push(format!("{}: {}", self.step, op.brief()));
        self.res.kinds.push(op.kind().to_string());
        if std::env::var("VERIF_DEBUG_FRAGS").is_ok() {
            let frs: Vec<String> = self
                .ds
                .get_fragments()
                .iter()
                .map(|f| format!("{}:{:?}/{}d{}", f.id(), f.metadata().physical_rows, f.metadata().files.len(), f.metadata().deletion_file.as_ref().map(|d| d.num_deleted_rows.unwrap_or(0)).unwrap_or(0)))
                .collect();
            eprintln!("step {} {} -> v{} frags [{}]", self.step, op.brief(), self.ds.version().version, frs.join(" "));
        }
        match (r, model_res) {
            (Ok(()), Ok(())) => {
                let after = self.ds.version().version;
                if after < before {
                    self.res.violate("C01", "version-monotone", "version-went-back", self.step, format!("{}: version {} -> {}", op.brief(), before, after));
                }
                for v in (before + 1)..after {
                    // intermediate versions of multi-transaction operations keep the old contents
                    self.history.insert(v, self.st.clone());
                }
                if after > before {
                    self.lin.apply(op, &self.st, &expect, after);
                }
                self.st = expect;
                self.history.insert(after, self.st.clone());
                after > before
            }
            (Err(_e), Err(_)) => {
                self.res.probe("expected-failure");
                let _ = self.ds.checkout_latest().await;
                let after = self.ds.version().version;
                if after != before {
                    self.res.violate("C12", "fail-without-effect", "failed-op-made-version", self.step, format!("{} failed as expected but version moved {} -> {}", op.brief(), before, after));
                }
                false
            }
            (Ok(()), Err(why)) => {
                self.res.violate(prop_for_op(op), "must-fail", &format!("should-fail:{}", op.kind()), self.step, format!("{} succeeded but must fail: {}", op.brief(), why));
                // resync model from lance is impossible; stop history here
                self.res.probe("stop-after-should-fail");
                false
            }
            (Err(e), Ok(())) if matches!(op, Op::CreateVectorIndex { .. } | Op::CreateFtsIndex) => {
                // training a vector / text index may legitimately refuse tiny or empty inputs
                self.res.probe(&format!("index-build-refused:{}", err_class(&e.to_string()).chars().take(40).collect::<String>()));
                let _ = self.ds.checkout_latest().await;
                false
            }
            (Err(e), Ok(())) => {
                let msg = e.to_string();
                let tags = self.history_tags(op, &[]);
                self.res.violate(prop_for_op(op), "unexpected-error", &format!("unexpected-error:{}{}:{}", op.kind(), tags, err_class(&msg)), self.step, format!("{} failed: {}", op.brief(), msg));
                let _ = self.ds.checkout_latest().await;
                false
            }
        }
    }

    /// Record the history facts the known-finding preconditions are stated in.
    pub fn note_history(&mut self, op: &Op) {
        if let Op::Merge { src_cols, .. } = op {
            if op.kind() == "merge_partial" {
                for c in src_cols.iter() {
                    self.rewritten_cols.insert(c.clone());
                }
            }
        }
        if !self.st.indices.is_empty() {
            match op {
                Op::Merge { .. } if op.kind() == "merge_partial" => self.seen_col_rewrite = true,
                Op::Compact { defer_remap: true, .. } => self.seen_defer_remap = true,
                Op::Compact { defer_remap: false, .. } if self.seen_defer_remap => self.eager_after_defer = true,
                _ => {}
            }
        }
    }

    /// Precondition tags of the known index defects for a query / operation that can use the
    /// scalar indices on `used` (the predicate's columns that carry an index):
    /// KF-07 (stable row ids), KF-08 (an index on a column that a partial-schema merge
    /// rewrote in place), KF-09 (eager index remap while a deferred remap is pending).
    pub fn idx_tags(&self, used: &BTreeSet<String>) -> String {
        if used.is_empty() {
            return String::new();
        }
        format!(
            "{}{}{}",
            if self.ctx.stable_row_ids { ":stable-row-ids" } else { "" },
            if used.iter().any(|c| self.rewritten_cols.contains(c)) { ":after-column-rewrite" } else { "" },
            if self.eager_after_defer { ":eager-remap-after-deferred" } else { "" }
        )
    }

    pub fn used_index_cols(&self, pc: &BTreeSet<String>, extra_indexed: &[String]) -> BTreeSet<String> {
        pc.iter().filter(|c| self.st.indices.iter().any(|i| &i.column == *c) || extra_indexed.contains(c)).cloned().collect()
    }

    /// Tags describing known-defect preconditions for an operation whose predicate can be
    /// answered through a scalar index (see known_findings.jsonl KF-07/08/09).
    pub fn history_tags(&self, op: &Op, extra_indexed: &[String]) -> String {
        let pred = match op {
            Op::Delete { pred } => Some(pred),
            Op::Update { pred, .. } => Some(pred),
            Op::Merge { by_source: BySource::DeleteIf(p), .. } => Some(p),
            _ => None,
        };
        let mut pc = BTreeSet::new();
        if let Some(p) = pred {
            p.columns(&mut pc);
        }
        if let Op::Merge { use_index: true, .. } = op {
            pc.insert("k".to_string());
        }
        self.idx_tags(&self.used_index_cols(&pc, extra_indexed))
    }

    // ---- oracles -----------------------------------------------------------

    pub async fn o_scan(&mut self, prop: &str, what: &str) {
        let ordered = self.st.order_exact;
        match scan_all(&self.ds, ordered).await {
            Ok((names, rows)) => {
                let expect_names: Vec<String> = self.st.cols.iter().map(|c| c.name.clone()).collect();
                if names != expect_names {
                    self.res.violate(prop, "O-scan", &format!("schema-mismatch:{}", what), self.step, format!("after {}: columns {:?} expected {:?}", what, names, expect_names));
                    return;
                }
                let ok = if ordered { rows == self.st.rows } else { sorted(&rows) == self.st.sorted_rows() };
                if !ok {
                    self.res.violate(prop, "O-scan", &format!("rows-mismatch:{}", what), self.step, format!("after {}: {}", what, diff_rows(&self.st.rows, &rows)));
                }
            }
            Err(e) => {
                self.res.violate(prop, "O-scan", &format!("scan-error:{}:{}", what, err_class(&e.to_string())), self.step, format!("scan after {} failed: {}", what, e));
            }
        }
    }

    pub async fn o_count(&mut self, prop: &str) {
        match self.ds.count_rows(None).await {
            Ok(n) if n == self.st.rows.len() => {}
            Ok(n) => self.res.violate(prop, "O-count", "count-mismatch", self.step, format!("count_rows()={} model={}", n, self.st.rows.len())),
            Err(e) => self.res.violate(prop, "O-count", "count-error", self.step, format!("count_rows failed: {}", e)),
        }
        let p = gen_pred(&mut self.rng, &self.st.cols, self.gen.next_k, 1);
        let expect = self.st.rows.iter().filter(|r| p.eval(&self.st.cols, r) == Some(true)).count();
        let mut pc = BTreeSet::new();
        p.columns(&mut pc);
        let kinds: Vec<String> = self.st.indices.iter().filter(|i| pc.contains(&i.column)).map(|i| i.kind.clone()).collect();
        let sql = p.sql();
        let neg = sql.contains("NOT (") || sql.contains("<>");
        let zone_based = kinds.iter().any(|k| k == "ZoneMap" || k == "BloomFilter");
        let tag = format!("{}{}{}{}", if has_not_over_in_conjunction(&p, false) { "not-over-in-conjunction:" } else { "" }, if kinds.is_empty() { "noindex".to_string() } else { kinds.join("+") }, if neg && !kinds.is_empty() { ":negation" } else { "" }, "").to_string() + &self.idx_tags(&self.used_index_cols(&pc, &[])) + if kinds.iter().any(|k| k == "NGram") && crate::model::has_trigramless_needle(&sql) { ":trigramless-needle" } else { "" };
        match self.ds.count_rows(Some(p.sql())).await {
            Ok(n) if n == expect => {}
            Ok(n) => self.res.violate("C16", "O-count", &format!("count-filter-mismatch:{}", tag), self.step, format!("count_rows({})={} model={}", p.sql(), n, expect)),
            Err(e) => self.res.violate("C16", "O-count", &format!("count-filter-error:{}", err_class(&e.to_string())), self.step, format!("count_rows({}) failed: {}", p.sql(), e)),
        }
    }

    pub async fn o_validate(&mut self) {
        if let Err(e) = self.ds.validate().await {
            self.res.violate("C05", "O-validate", &format!("validate:{}", err_class(&e.to_string())), self.step, format!("Dataset::validate failed: {}", e));
        }
        let m = self.ds.manifest();
        // field ids unique
        let mut ids = BTreeSet::new();
        for f in m.schema.fields_pre_order() {
            if !ids.insert(f.id) {
                self.res.violate("C05", "O-validate", "dup-field-id", self.step, format!("field id {} appears twice in schema", f.id));
            }
        }
        let mut prev: Option<u64> = None;
        let mut total_rows = 0usize;
        for frag in m.fragments.iter() {
            if let Some(p) = prev {
                if frag.id <= p {
                    self.res.violate("C05", "O-validate", "frag-order", self.step, format!("fragment id {} after {}", frag.id, p));
                }
            }
            prev = Some(frag.id);
            if let Some(maxid) = m.max_fragment_id {
                if frag.id > maxid as u64 {
                    self.res.violate("C05", "O-validate", "frag-above-max", self.step, format!("fragment id {} > max_fragment_id {}", frag.id, maxid));
                }
            } else {
                self.res.violate("C05", "O-validate", "no-max-frag", self.step, "max_fragment_id missing with fragments present".into());
            }
            let mut seen = BTreeSet::new();
            for df in frag.files.iter() {
                for fid in df.fields.iter() {
                    if *fid >= 0 && !seen.insert(*fid) {
                        self.res.violate("C05", "O-validate", "field-in-two-files", self.step, format!("fragment {}: field {} stored by two data files", frag.id, fid));
                    }
                }
            }
            let phys = frag.physical_rows.unwrap_or(0);
            let deleted = frag.deletion_file.as_ref().and_then(|d| d.num_deleted_rows).unwrap_or(0);
            if deleted > phys {
                self.res.violate("C05", "O-validate", "deleted-gt-physical", self.step, format!("fragment {}: {} deleted of {} physical", frag.id, deleted, phys));
            }
            total_rows += phys - deleted.min(phys);
            if m.uses_stable_row_ids() && frag.row_id_meta.is_none() {
                self.res.violate("C05", "O-validate", "missing-row-ids", self.step, format!("fragment {} has no row id sequence", frag.id));
            }
        }
        if total_rows != self.st.rows.len() {
            self.res.violate("C05", "O-validate", "manifest-row-count", self.step, format!("manifest says {} live rows, model {}", total_rows, self.st.rows.len()));
        }
        match self.ds.load_indices().await {
            Ok(idx) => {
                for i in idx.iter() {
                    for f in i.fields.iter() {
                        if !ids.contains(f) {
                            self.res.violate("C05", "O-validate", "index-unknown-field", self.step, format!("index {} names field {} not in schema", i.name, f));
                        }
                    }
                }
                // index list vs model (system indices excluded)
                let mut names: Vec<String> = idx.iter().filter(|i| !i.name.starts_with("__")).map(|i| i.name.clone()).collect();
                names.sort();
                names.dedup();
                let mut exp: Vec<String> = self.st.indices.iter().map(|i| i.name.clone()).collect();
                exp.sort();
                // lance drops an index whose fragments are all gone; anything else must match
                let unknown: Vec<&String> = names.iter().filter(|n| !exp.contains(n)).collect();
                if !unknown.is_empty() {
                    self.res.violate("C05", "O-validate", "index-list", self.step, format!("indices {:?} model {:?}", names, exp));
                } else if names != exp {
                    let live_frags: BTreeSet<u32> = m.fragments.iter().map(|f| f.id as u32).collect();
                    for gone in exp.iter().filter(|n| !names.contains(n)) {
                        // legitimate only if no fragment the index covered is still alive: cannot be
                        // verified once the metadata is gone, so the model follows lance here
                        let _ = &live_frags;
                        self.st.indices.retain(|i| &i.name != gone);
                        self.res.probe("index-dropped-by-lance");
                    }
                }
            }
            Err(e) => self.res.violate("C05", "O-validate", "load-indices-error", self.step, format!("load_indices failed: {}", e)),
        }
        // config
        let cfgm: BTreeMap<String, String> = self.ds.config().iter().filter(|(k, _)| k.starts_with("cfg")).map(|(k, v)| (k.clone(), v.clone())).collect();
        if cfgm != self.st.config {
            self.res.violate("C05", "O-validate", "config", self.step, format!("config {:?} model {:?}", cfgm, self.st.config));
        }
    }

    /// versions() must be exactly 1..=latest (no cleanup in this engine mode)
    pub async fn o_versions(&mut self) {
        match self.ds.versions().await {
            Ok(vs) => {
                let got: Vec<u64> = vs.iter().map(|v| v.version).collect();
                let latest = self.ds.version().version;
                let exp: Vec<u64> = (1..=latest).collect();
                if got != exp {
                    self.res.violate("C01", "dense-versions", "versions-not-dense", self.step, format!("versions()={:?} expected 1..={}", got, latest));
                }
            }
            Err(e) => self.res.violate("C01", "dense-versions", "versions-error", self.step, format!("versions() failed: {}", e)),
        }
    }

    /// Re-open old versions with a fresh party and compare with what the model recorded.
    pub async fn o_time_travel(&mut self, sample: usize) {
        let vs: Vec<u64> = self.history.keys().cloned().collect();
        let mut pick: Vec<u64> = vs.clone();
        if sample < vs.len() {
            self.rng.shuffle(&mut pick);
            pick.truncate(sample);
        }
        let party = self.fresh_party();
        let ctx = self.ctx.for_party(party);
        for v in pick {
            let exp = self.history.get(&v).unwrap().clone();
            match ctx.open_version(v).await {
                Ok(ds) => match scan_all(&ds, exp.order_exact).await {
                    Ok((names, rows)) => {
                        let en: Vec<String> = exp.cols.iter().map(|c| c.name.clone()).collect();
                        let ok = names == en && if exp.order_exact { rows == exp.rows } else { sorted(&rows) == exp.sorted_rows() };
                        if !ok {
                            self.res.violate("C06", "O-timetravel", "old-version-changed", self.step, format!("version {} re-read differs: cols {:?} vs {:?}; {}", v, names, en, diff_rows(&exp.rows, &rows)));
                        }
                        let cfgm: BTreeMap<String, String> = ds.config().iter().filter(|(k, _)| k.starts_with("cfg")).map(|(k, v)| (k.clone(), v.clone())).collect();
                        if cfgm != exp.config {
                            self.res.violate("C06", "O-timetravel", "old-version-config", self.step, format!("version {} config {:?} expected {:?}", v, cfgm, exp.config));
                        }
                        if let Ok(idx) = ds.load_indices().await {
                            let mut names: Vec<String> = idx.iter().filter(|i| !i.name.starts_with("__")).map(|i| i.name.clone()).collect();
                            names.sort();
                            names.dedup();
                            let mut e: Vec<String> = exp.indices.iter().map(|i| i.name.clone()).collect();
                            e.sort();
                            // lance drops a vector index whose fragments are all gone (retain_relevant_indices)
                            let optional: Vec<String> = exp.indices.iter().filter(|i| i.kind.starts_with("IvfFlat")).map(|i| i.name.clone()).collect();
                            let ok = names.iter().all(|n| e.contains(n)) && e.iter().all(|n| names.contains(n) || optional.contains(n));
                            if !ok {
                                self.res.violate("C06", "O-timetravel", "old-version-indices", self.step, format!("version {} indices {:?} expected {:?}", v, names, e));
                            }
                        }
                    }
                    Err(e) => self.res.violate("C06", "O-timetravel", &format!("old-version-scan-error:{}", err_class(&e.to_string())), self.step, format!("scan of version {} failed: {}", v, e)),
                },
                Err(e) => self.res.violate("C06", "O-timetravel", "old-version-open-error", self.step, format!("open of version {} failed: {}", v, e)),
            }
        }
    }

    /// Index on == index off for random predicates over indexed columns.
    pub async fn o_index_diff(&mut self, npreds: usize) {
        if self.st.indices.is_empty() {
            return;
        }
        let icol: Vec<String> = self.st.indices.iter().map(|i| i.column.clone()).collect();
        let cols: Vec<ColDef> = self.st.cols.iter().filter(|c| icol.contains(&c.name)).cloned().collect();
        if cols.is_empty() {
            return;
        }
        for _ in 0..npreds {
            let mut p = gen_pred(&mut self.rng, &cols, self.gen.next_k, 2);
            // known finding (negation over an exact index keeps NULL rows): generate the
            // triggering shape in a minority of queries only so other defects stay reachable
            for _ in 0..8 {
                let sql = p.sql();
                let neg = sql.contains("NOT (") || sql.contains("<>");
                let mut pc = BTreeSet::new();
                p.columns(&mut pc);
                let nullable = cols.iter().any(|c| pc.contains(&c.name) && c.nullable);
                if neg && nullable && self.rng.chance(0.97) {
                    p = gen_pred(&mut self.rng, &cols, self.gen.next_k, 2);
                } else {
                    break;
                }
            }
            let sql = p.sql();
            let on = scan(&self.ds, &ScanOpts { filter: Some(sql.clone()), use_scalar_index: Some(true), ..Default::default() }).await;
            let off = scan(&self.ds, &ScanOpts { filter: Some(sql.clone()), use_scalar_index: Some(false), ..Default::default() }).await;
            let kinds: Vec<String> = self.st.indices.iter().filter(|i| { let mut s = BTreeSet::new(); p.columns(&mut s); s.contains(&i.column) }).map(|i| i.kind.clone()).collect();
            let inexact = kinds.iter().any(|k| k == "ZoneMap" || k == "BloomFilter" || k == "NGram");
            let prop = if inexact { "C20" } else { "C19" };
            self.res.probe("index-diff-queries");
            match (on, off) {
                (Ok((_, a)), Ok((_, b))) => {
                    let expect: Vec<Row> = self.st.rows.iter().filter(|r| p.eval(&self.st.cols, r) == Some(true)).cloned().collect();
                    if sorted(&a) != sorted(&b) {
                        // classify: extra rows that are NULL in a predicate column under a negation
                        let bs: BTreeSet<&Row> = b.iter().collect();
                        let as_: BTreeSet<&Row> = a.iter().collect();
                        let extra: Vec<&&Row> = as_.difference(&bs).collect();
                        let missing = bs.difference(&as_).count();
                        let mut pcols = BTreeSet::new();
                        p.columns(&mut pcols);
                        let pidx: Vec<usize> = pcols.iter().filter_map(|c| self.st.col(c)).collect();
                        let neg = sql.contains("NOT (") || sql.contains("<>");
                        let all_extra_null = !extra.is_empty() && extra.iter().all(|r| pidx.iter().any(|i| r[*i].is_null()));
                        let class = if missing == 0 && neg && all_extra_null { "negation-keeps-null-rows" } else if missing > 0 { "drops-rows" } else { "extra-rows" };
                        let zone_based = kinds.iter().any(|k| k == "ZoneMap" || k == "BloomFilter");
                        let _ = zone_based;
                        if std::env::var("VERIF_DEBUG_FRAGS").is_ok() {
                            let party = self.fresh_party();
                            let ctx = self.ctx.for_party(party);
                            if let Ok(ds2) = ctx.open().await {
                                let on2 = scan(&ds2, &ScanOpts { filter: Some(sql.clone()), use_scalar_index: Some(true), ..Default::default() }).await;
                                eprintln!("step {} filter {} : fresh-open with index agrees with scan: {:?}", self.step, sql, on2.map(|(_, x)| sorted(&x) == sorted(&b)).map_err(|e| e.to_string()));
                            }
                        }
                        let stable = self.idx_tags(&self.used_index_cols(&pcols, &[]));
                        // precondition of KF-27: an n-gram index is asked for a needle without any alphanumeric trigram
                        let stable = if kinds.iter().any(|k| k == "NGram") && crate::model::has_trigramless_needle(&sql) { format!("{}:trigramless-needle", stable) } else { stable };
                        self.res.violate(prop, "O-index-diff", &format!("index-vs-scan:{}:{}{}", class, kinds.join("+"), stable), self.step, format!("filter `{}` kinds {:?}: with index {}", sql, kinds, diff_rows(&b, &a)));
                    } else if sorted(&b) != sorted(&expect) {
                        let t = if has_not_over_in_conjunction(&p, false) { "filter-vs-model:not-over-in-conjunction" } else { "filter-vs-model" };
                        self.res.violate("C16", "O-filter-model", t, self.step, format!("filter `{}`: {}", sql, diff_rows(&expect, &b)));
                    }
                }
                (Err(e), Ok(_)) => self.res.violate(prop, "O-index-diff", &format!("index-error:{}:{}", kinds.join("+"), err_class(&e.to_string())), self.step, format!("filter `{}` fails only with index: {}", sql, e)),
                (Ok(_), Err(e)) => self.res.violate("C16", "O-filter-model", "scan-error-noindex", self.step, format!("filter `{}` fails without index: {}", sql, e)),
                (Err(_), Err(_)) => {
                    self.res.probe("filter-rejected");
                }
            }
        }
    }

    pub async fn o_fresh(&mut self, prop: &str) {
        let party = self.fresh_party();
        let ctx = self.ctx.for_party(party);
        match ctx.open().await {
            Ok(ds) => {
                if ds.version().version != self.ds.version().version {
                    self.res.violate(prop, "O-fresh", "fresh-version", self.step, format!("fresh open sees version {} handle has {}", ds.version().version, self.ds.version().version));
                    return;
                }
                match scan_all(&ds, false).await {
                    Ok((_, rows)) => {
                        if sorted(&rows) != self.st.sorted_rows() {
                            self.res.violate(prop, "O-fresh", "fresh-rows", self.step, format!("fresh open: {}", diff_rows(&self.st.rows, &rows)));
                        }
                    }
                    Err(e) => self.res.violate(prop, "O-fresh", "fresh-scan-error", self.step, format!("fresh scan failed: {}", e)),
                }
            }
            Err(e) => self.res.violate(prop, "O-fresh", "fresh-open-error", self.step, format!("fresh open failed: {}", e)),
        }
    }

    pub fn finish(mut self) -> RunResult {
        {
            let g = self.w.lock();
            for v in g.immut_violations.iter() {
                self.res.status = "violation".into();
                self.res.violations.push(crate::runres::Violation { prop: "C06".into(), oracle: "O-immut".into(), sig: "immutable-object-replaced".into(), step: self.step, detail: v.clone() });
            }
            self.res.calls = g.stats.calls;
            self.res.faults = g.stats.faults.clone();
            self.res.sim_time_ms = ((g.clock_ns - crate::world::EPOCH_NS) / 1_000_000) as u64;
        }
        self.res.digest = self.w.digest();
        self.res.steps = self.step;
        if self.cfg.trace {
            let log = self.w.take_log();
            let n = log.len();
            for e in log.into_iter().skip(n.saturating_sub(400)) {
                self.res.trace.push(format!("{} a{}#{} {} {} {}{}", e.n, e.actor, e.seq, e.kind.short(), e.path, e.decision.short(), if e.ok { "" } else { " ERR" }));
            }
        }
        self.res
    }
}

pub fn sorted(rows: &[Row]) -> Vec<Row> {
    let mut r = rows.to_vec();
    r.sort();
    r
}

/// Coarse class of an error message (for signatures): first words without numbers/uuids.
pub fn err_class(msg: &str) -> String {
    let canon = crate::world::canon_path(msg);
    let start = canon.find("panicked at").unwrap_or(0);
    let mut out = String::new();
    for w in canon[start..].split(|c: char| !c.is_ascii_alphabetic()).filter(|w| w.len() > 2).take(7) {
        if !out.is_empty() {
            out.push('_');
        }
        out.push_str(&w.to_ascii_lowercase());
    }
    out
}

/// NOT (.. (c IN (..)) AND (c IN (..)) ..): DataFusion's simplifier folds a conjunction of
/// disjoint IN lists to `false`, which is wrong under NOT for NULL values (known finding)
pub fn has_not_over_in_conjunction(p: &Pred, under_not: bool) -> bool {
    match p {
        Pred::Not(q) => has_not_over_in_conjunction(q, true),
        Pred::And(a, b) => {
            if under_not {
                if let (Pred::In(c1, _), Pred::In(c2, _)) = (a.as_ref(), b.as_ref()) {
                    if c1 == c2 {
                        return true;
                    }
                }
            }
            has_not_over_in_conjunction(a, under_not) || has_not_over_in_conjunction(b, under_not)
        }
        Pred::Or(a, b) => {
            // De Morgan form of the same shape: NOT (c IN A) OR NOT (c IN B) == NOT (c IN A AND c IN B)
            if !under_not {
                if let (Pred::Not(x), Pred::Not(y)) = (a.as_ref(), b.as_ref()) {
                    if let (Pred::In(c1, _), Pred::In(c2, _)) = (x.as_ref(), y.as_ref()) {
                        if c1 == c2 {
                            return true;
                        }
                    }
                }
            }
            has_not_over_in_conjunction(a, under_not) || has_not_over_in_conjunction(b, under_not)
        }
        _ => false,
    }
}

/// operation kind for signatures; deletes/updates whose predicate negates an indexed
/// nullable column are tagged (known finding: negation over an exact index keeps NULL rows)
pub fn op_sig_kind(op: &Op, st: &TableState) -> String {
    let pred = match op {
        Op::Delete { pred } => Some(pred),
        Op::Update { pred, .. } => Some(pred),
        _ => None,
    };
    if let Some(p) = pred {
        let sql = p.sql();
        let neg = sql.contains("NOT (") || sql.contains("<>");
        let mut pc = BTreeSet::new();
        p.columns(&mut pc);
        let indexed_nullable = st.indices.iter().any(|i| pc.contains(&i.column) && st.cols.iter().any(|c| c.name == i.column && c.nullable));
        if neg && indexed_nullable {
            return format!("{}:indexed-negation", op.kind());
        }
        if has_not_over_in_conjunction(p, false) {
            return format!("{}:not-over-in-conjunction", op.kind());
        }
    }
    op.kind().to_string()
}

/// signature of a panic: its source location (file:line) when known, else message class
pub fn panic_sig(p: &str) -> String {
    if let (Some(a), Some(b)) = (p.rfind('['), p.rfind(']')) {
        if b > a + 1 {
            return p[a + 1..b].to_string();
        }
    }
    err_class(p)
}

pub async fn run(cfg: RunCfg) -> RunResult {
    let mode = cfg.opt("mode").unwrap_or("seq").to_string();
    match mode.as_str() {
        "seq" => run_seq(cfg).await,
        "crash" => crate::e1crash::run_crash(cfg).await,
        "conc" => crate::e1conc::run_conc(cfg).await,
        "refs" => crate::e1refs::run_refs(cfg).await,
        "maint" => crate::e1maint::run_maint(cfg).await,
        other => RunResult::harness_error(&cfg, format!("unknown e1 mode {}", other)),
    }
}

/// Catch panics of lance code inside one async step and report them.
pub async fn guarded<F, T>(f: F) -> Result<T, String>
where
    F: std::future::Future<Output = T>,
{
    use futures::FutureExt;
    match std::panic::AssertUnwindSafe(f).catch_unwind().await {
        Ok(v) => Ok(v),
        Err(p) => {
            let msg = if let Some(s) = p.downcast_ref::<String>() {
                s.clone()
            } else if let Some(s) = p.downcast_ref::<&str>() {
                s.to_string()
            } else {
                "panic".to_string()
            };
            let loc = crate::runres::LAST_PANIC_LOC.lock().unwrap().clone();
            Err(format!("{} [{}]", msg, loc))
        }
    }
}

pub async fn run_seq(cfg: RunCfg) -> RunResult {
    let t0 = std::time::Instant::now();
    let mut r = match Runner::new(cfg.clone()).await {
        Ok(r) => r,
        Err(res) => return res,
    };
    let mix = Mix::for_prop(&cfg.prop);
    match cfg.prop.as_str() {
        "C20" => r.gen.exact_indices = false,
        "C13" => {
            r.gen.inexact_indices = false;
            r.gen.allow_defer_remap = true;
            r.gen.defer_rate = *r.rng.pick(&[0.0f64, 0.2, 0.5, 0.95]);
            // deferred remap on a stable-row-id table panics at once (KF-03): keep it rare
            if r.ctx.stable_row_ids && !r.rng.chance(0.1) {
                r.gen.defer_rate = 0.0;
            }
        }
        "C38" => {
            r.gen.inexact_indices = false;
            // cached index pages depend on the fragment-reuse index: exercise deferred remaps under
            // every cache capacity (not on stable-row-id tables: KF-03)
            if !r.ctx.stable_row_ids {
                r.gen.allow_defer_remap = true;
                r.gen.defer_rate = *r.rng.pick(&[0.0f64, 0.3, 0.8]);
            }
        }
        // inexact (zone / n-gram) indices are exercised by C20's check only
        _ => r.gen.inexact_indices = false,
    }
    let drawn = if cfg.thorough() { r.rng.range(8, 24) } else { r.rng.range(4, 12) } as u64;
    let nsteps = cfg.max_steps.map(|m| m.min(drawn)).unwrap_or(drawn);
    let mut state_hashes = BTreeSet::new();
    let mut cache_sc = if cfg.prop == "C38" { r.cache_scenario_init().await } else { None };
    let mut c42_tags: BTreeMap<String, u64> = BTreeMap::new();
    for step in 0..nsteps {
        r.step = step;
        let versions: Vec<u64> = r.history.keys().cloned().collect();
        let op = {
            let Runner { gen, rng, st, .. } = &mut r;
            gen.gen_op(rng, st, &mix, &versions)
        };
        if cfg.skip.contains(&step) {
            continue;
        }
        let nviol_before = r.res.violations.len();
        // the whole step (operation + oracles) runs under a virtual-time deadline: a call that
        // never completes is a violation with a signature, not a real-time watchdog error
        let outcome = guarded(tokio::time::timeout(std::time::Duration::from_secs(60 * 86_400), async {
            let changed = r.do_op(&op).await;
            let prop = prop_for_op(&op);
            let what_s = format!("{}{}", op_sig_kind(&op, &r.st), r.history_tags(&op, &[]));
            let what = what_s.as_str();
            r.o_scan(prop, what).await;
            r.o_count(prop).await;
            r.o_validate().await;
            r.o_versions().await;
            if matches!(r.cfg.prop.as_str(), "C19" | "C20" | "C13" | "C24") {
                r.o_index_diff(if matches!(r.cfg.prop.as_str(), "C19" | "C20") { 8 } else { 3 }).await;
            }
            if changed && r.rng.chance(0.3) {
                r.o_time_travel(2).await;
            }
            let prop_now = r.cfg.prop.clone();
            if matches!(prop_now.as_str(), "C07" | "C18" | "C13" | "C17" | "C15") {
                r.o_rowids(what).await;
            }
            if matches!(prop_now.as_str(), "C17" | "C13") {
                r.o_version_cols(what).await;
            }
            if matches!(prop_now.as_str(), "C15" | "C18") {
                r.o_take(what).await;
            }
            if matches!(prop_now.as_str(), "C37" | "C05") {
                r.o_flags();
            }
            if prop_now == "C16" {
                r.o_knobs(4).await;
            }
            if prop_now == "C22" {
                r.o_knn(6).await;
            }
            if prop_now == "C23" {
                r.o_fts(6).await;
            }
            if prop_now == "C38" {
                r.o_cache_diff(what).await;
                if let Some(sc) = cache_sc.as_mut() {
                    r.cache_scenario_step(sc).await;
                }
            }
            if prop_now == "C42" && changed && r.rng.chance(0.2) {
                let name = format!("t{}", c42_tags.len());
                let v = r.ds.version().version;
                if r.ds.tags().create(&name, v).await.is_ok() {
                    c42_tags.insert(name, v);
                }
            }
        }))
        .await;
        let outcome = match outcome {
            Ok(Ok(())) => Ok(()),
            Ok(Err(_elapsed)) => {
                let tags = format!("{}{}", if matches!(op, Op::Compact { defer_remap: true, .. }) { ":deferred-compaction" } else { "" }, if r.ctx.stable_row_ids { ":stable-row-ids" } else { "" });
                r.res.violate(prop_for_op(&op), "liveness", &format!("step-never-completes:{}{}", op.kind(), tags), step, format!("{} or the reads after it did not complete within 60 virtual days", op.brief()));
                r.res.probe("step-stuck");
                break;
            }
            Err(p) => Err(p),
        };
        if let Err(p) = outcome {
            let prop = prop_for_op(&op);
            let tags = format!("{}{}", if matches!(op, Op::Compact { defer_remap: true, .. }) { ":deferred-compaction" } else { "" }, if r.ctx.stable_row_ids { ":stable-row-ids" } else { "" });
            r.res.violate(prop, "panic", &format!("panic:{}{}", panic_sig(&p), tags), step, format!("panic during/after {}: {}", op.brief(), p));
        }
        if r.recreated {
            // everything observed after a drop-and-recreate inside one session is attributed to
            // cache transparency (stale entries keyed by version only)
            for v in r.res.violations.iter_mut().skip(nviol_before) {
                if !v.sig.ends_with(":after-recreate") {
                    v.sig = format!("{}:after-recreate", v.sig);
                    v.prop = "C38".into();
                }
            }
        }
        if r.res.violations.iter().any(|v| v.oracle == "panic") {
            break;
        }
        state_hashes.insert(crate::rng::mix(&[r.w.digest(), r.st.rows.len() as u64]));
        if r.res.violations.len() >= 3 {
            break;
        }
    }
    r.step = nsteps;
    if r.res.violations.is_empty() {
        let fin = guarded(async {
            r.o_time_travel(usize::MAX).await;
            if r.cfg.prop == "C42" {
                r.o_copy_root(&c42_tags).await;
                return;
            }
            r.o_fresh("C38").await;
        })
        .await;
        if let Err(p) = fin {
            r.res.violate("C06", "panic", "panic-final", nsteps, format!("panic in final checks: {}", p));
        }
        if r.recreated {
            // same attribution as inside the loop: after a drop-and-recreate in one session stale
            // cache entries keyed by (uri, version) explain whatever the final checks see
            for v in r.res.violations.iter_mut() {
                if !v.sig.ends_with(":after-recreate") {
                    v.sig = format!("{}:after-recreate", v.sig);
                    v.prop = "C38".into();
                }
            }
        }
    }
    if r.ctx.storage_version == LanceFileVersion::Legacy && !r.gen.no_nulls {
        for v in r.res.violations.iter_mut() {
            if !v.sig.ends_with(":legacy-nulls") {
                v.sig = format!("{}:legacy-nulls", v.sig);
            }
        }
    }
    r.res.distinct_states = state_hashes.len() as u64;
    r.res.nontrivial = r.res.kinds.len() >= 3;
    r.res.interleaving_hash = crate::rng::mix(&r.res.kinds.iter().map(|k| crate::rng::hash_str(k)).collect::<Vec<_>>());
    let mut res = r.finish();
    res.wall_ms = t0.elapsed().as_millis() as u64;
    res
}

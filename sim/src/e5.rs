//! E5: the directory / manifest namespace catalog as a hierarchical map (C36).
//!
//! Oracle is consistency based: the set of names whose creation was acknowledged and that
//! were not dropped must be exactly what `exists` / `list` report, an operation on one name
//! never changes another, a name that is accepted is stored faithfully, paging returns every
//! entry exactly once.

use std::collections::{BTreeMap, BTreeSet};
use std::sync::Arc;

use lance_namespace::models::*;
use lance_namespace::LanceNamespace;
use lance_namespace_impls::DirectoryNamespaceBuilder;

use crate::e1::{err_class, guarded, panic_sig};
use crate::rng::Rng;
use crate::runres::{RunCfg, RunResult};
use crate::world::{LanceKnobs, Party, World};

const ROOT: &str = "sim://bucket/ns";

fn gen_name(rng: &mut Rng) -> String {
    // mostly ordinary names, sometimes delimiter / quote / dot / slash / unicode / space characters
    let plain = ["a", "b", "ab", "t1", "x", "a.b", "A", "b_c", "a-b", "t.2"];
    let odd = ["a$b", "b$c", "a.b", "it's", "q\"q", "a/b", "é", "a b", "$", "a$", ".lance", "a.lance", "A"];
    if rng.chance(0.8) {
        rng.pick(&plain).to_string()
    } else {
        rng.pick(&odd).to_string()
    }
}

type NsPath = Vec<String>;

fn percent_decode(s: &str) -> String {
    let b = s.as_bytes();
    let mut out = Vec::new();
    let mut i = 0;
    while i < b.len() {
        if b[i] == b'%' && i + 2 < b.len() + 0 && i + 2 <= b.len() - 1 + 0 {
            if let Ok(v) = u8::from_str_radix(&s[i + 1..i + 3], 16) {
                out.push(v);
                i += 3;
                continue;
            }
        }
        out.push(b[i]);
        i += 1;
    }
    String::from_utf8_lossy(&out).to_string()
}

struct Model {
    namespaces: BTreeSet<NsPath>,
    tables: BTreeSet<(NsPath, String)>,
}

async fn list_all_tables(ns: &dyn LanceNamespace, parent: &NsPath, limit: Option<i32>) -> Result<Vec<String>, String> {
    let mut out = Vec::new();
    let mut token: Option<String> = None;
    for _ in 0..200 {
        let req = ListTablesRequest { id: Some(parent.clone()), page_token: token.clone(), limit };
        let resp = ns.list_tables(req).await.map_err(|e| e.to_string())?;
        let n = resp.tables.len();
        let last = resp.tables.last().cloned();
        out.extend(resp.tables);
        match (resp.page_token, limit) {
            (Some(t), _) if !t.is_empty() => token = Some(t),
            // no token in the response: start-after paging with the last returned name
            (_, Some(l)) if n as i32 >= l && l > 0 => token = last,
            _ => return Ok(out),
        }
    }
    Err("paging did not terminate".into())
}

async fn list_all_namespaces(ns: &dyn LanceNamespace, parent: &NsPath, limit: Option<i32>) -> Result<Vec<String>, String> {
    let mut out = Vec::new();
    let mut token: Option<String> = None;
    for _ in 0..200 {
        let req = ListNamespacesRequest { id: Some(parent.clone()), page_token: token.clone(), limit };
        let resp = ns.list_namespaces(req).await.map_err(|e| e.to_string())?;
        let n = resp.namespaces.len();
        let last = resp.namespaces.last().cloned();
        out.extend(resp.namespaces);
        match (resp.page_token, limit) {
            (Some(t), _) if !t.is_empty() => token = Some(t),
            // no token in the response: start-after paging with the last returned name
            (_, Some(l)) if n as i32 >= l && l > 0 => token = last,
            _ => return Ok(out),
        }
    }
    Err("paging did not terminate".into())
}

pub async fn run(cfg: RunCfg) -> RunResult {
    let t0 = std::time::Instant::now();
    let mut res = RunResult::new(&cfg);
    let mut rng = Rng::new(cfg.seed);
    let w = World::new();
    {
        let mut g = w.lock();
        g.knobs.list_lexical = rng.chance(0.5);
        g.knobs.list_salt = rng.next_u64();
    }
    let party = Arc::new(Party::new(&w, 1, LanceKnobs { io_parallelism: 4, list_is_lexically_ordered: false, ..Default::default() }));
    let mode = match cfg.opt("nsmode") {
        Some(m) => m.to_string(),
        None => rng.pick(&["dir", "manifest", "dual"]).to_string(),
    };
    let (manifest, listing) = match mode.as_str() {
        "dir" => (false, true),
        "manifest" => (true, false),
        _ => (true, true),
    };
    res.knobs.insert("mode".into(), mode.clone());
    let ns = match DirectoryNamespaceBuilder::new(ROOT).session(party.session.clone()).manifest_enabled(manifest).dir_listing_enabled(listing).build().await {
        Ok(n) => n,
        Err(e) => return RunResult::harness_error(&cfg, format!("namespace build failed: {}", e)),
    };
    let mut m = Model { namespaces: BTreeSet::new(), tables: BTreeSet::new() };
    let nested = manifest; // child namespaces need the manifest table
    let nsteps = {
        let d = if cfg.thorough() { rng.range(10, 30) } else { rng.range(5, 14) } as u64;
        cfg.max_steps.map(|x| x.min(d)).unwrap_or(d)
    };
    for step in 0..nsteps {
        let roll = rng.below(100);
        // a parent namespace: root or an existing one
        let parents: Vec<NsPath> = std::iter::once(vec![]).chain(m.namespaces.iter().cloned()).collect();
        let parent = rng.pick(&parents).clone();
        let name = gen_name(&mut rng);
        let existing_tables: Vec<(NsPath, String)> = m.tables.iter().cloned().collect();
        let existing_ns: Vec<NsPath> = m.namespaces.iter().cloned().collect();
        let pick_t = if existing_tables.is_empty() { None } else { Some(rng.pick(&existing_tables).clone()) };
        let pick_n = if existing_ns.is_empty() { None } else { Some(rng.pick(&existing_ns).clone()) };
        let page = rng.range(1, 3) as i32;
        if cfg.skip.contains(&step) {
            continue;
        }
        let out = guarded(async {
            let mut desc = String::new();
            if roll < 35 {
                // create table (parent, name)
                let mut id = parent.clone();
                id.push(name.clone());
                desc = format!("create_empty_table({:?})", id);
                let r = ns.create_empty_table(CreateEmptyTableRequest { id: Some(id.clone()), location: None, properties: None }).await;
                let existed = m.tables.contains(&(parent.clone(), name.clone()));
                match r {
                    Ok(_) => {
                        if existed {
                            // create_empty_table only reserves the name; doing so twice is accepted (idempotent)
                            res.probe("create-existing-table-accepted");
                        }
                        m.tables.insert((parent.clone(), name.clone()));
                        res.probe("table-created");
                        if name.chars().any(|c| !c.is_ascii_alphanumeric()) {
                            res.probe("odd-name-accepted");
                        }
                    }
                    Err(_) => res.probe("create-table-rejected"),
                }
            } else if roll < 50 && nested {
                let mut id = parent.clone();
                id.push(name.clone());
                desc = format!("create_namespace({:?})", id);
                let r = ns.create_namespace(CreateNamespaceRequest { id: Some(id.clone()), mode: None, properties: None }).await;
                let existed = m.namespaces.contains(&id);
                match r {
                    Ok(_) => {
                        if existed {
                            res.violate("C36", "map", "create-existing-namespace-succeeded", step, format!("{} succeeded although it exists", desc));
                        }
                        m.namespaces.insert(id);
                        res.probe("namespace-created");
                    }
                    Err(_) => res.probe("create-namespace-rejected"),
                }
            } else if roll < 65 {
                if let Some((p, n)) = pick_t.clone() {
                    let mut id = p.clone();
                    id.push(n.clone());
                    desc = format!("drop_table({:?})", id);
                    match ns.drop_table(DropTableRequest { id: Some(id) }).await {
                        Ok(_) => {
                            m.tables.remove(&(p, n));
                            res.probe("table-dropped");
                        }
                        Err(e) => res.violate("C36", "map", &format!("drop-existing-table-failed:{}", err_class(&e.to_string())), step, format!("{} failed: {}", desc, e)),
                    }
                }
            } else if roll < 72 && nested {
                if let Some(p) = pick_n.clone() {
                    desc = format!("drop_namespace({:?})", p);
                    let has_children = m.tables.iter().any(|(tp, _)| *tp == p) || m.namespaces.iter().any(|o| o.len() > p.len() && o[..p.len()] == p[..]);
                    match ns.drop_namespace(DropNamespaceRequest { id: Some(p.clone()), mode: None, behavior: None }).await {
                        Ok(_) => {
                            if has_children {
                                res.violate("C36", "map", "drop-nonempty-namespace-succeeded", step, format!("{} succeeded although the namespace is not empty (default behaviour is restrict)", desc));
                            }
                            m.namespaces.remove(&p);
                            res.probe("namespace-dropped");
                        }
                        Err(_) => {
                            if !has_children {
                                res.probe("drop-empty-namespace-rejected");
                            }
                        }
                    }
                }
            } else if roll < 80 {
                // a name that was never created must not exist
                let mut id = parent.clone();
                id.push(name.clone());
                desc = format!("table_exists({:?})", id);
                let r = ns.table_exists(TableExistsRequest { id: Some(id.clone()), version: None }).await;
                let should = m.tables.contains(&(parent.clone(), name.clone()));
                if r.is_ok() != should {
                    res.violate("C36", "map", if should { "existing-table-not-found" } else { "phantom-table" }, step, format!("{} -> {} but the model says {}", desc, r.is_ok(), should));
                }
            } else {
                desc = "check".into();
            }
            if !desc.is_empty() {
                res.script.push(format!("{}: {}", step, desc));
                res.kinds.push(desc.split('(').next().unwrap_or("op").to_string());
            }
            // ---- the catalog equals the model: every parent's listings, exists for every entry ----
            let parents: Vec<NsPath> = std::iter::once(vec![]).chain(m.namespaces.iter().cloned()).collect();
            for p in parents.iter() {
                let exp: Vec<String> = m.tables.iter().filter(|(tp, _)| tp == p).map(|(_, n)| n.clone()).collect();
                match list_all_tables(&ns, p, None).await {
                    Ok(mut got) => {
                        got.sort();
                        let mut e = exp.clone();
                        e.sort();
                        if got != e {
                            let only_encoding = got.len() == e.len() && {
                                let mut dec: Vec<String> = got.iter().map(|g| percent_decode(g)).collect();
                                dec.sort();
                                dec == e
                            };
                            let class = if only_encoding { ":percent-encoded-name" } else { "" };
                            res.violate("C36", "map", &format!("list-tables-mismatch:{}{}", mode, class), step, format!("after {}: list_tables({:?}) = {:?} model {:?}", desc, p, got, e));
                        }
                        // paging returns every entry exactly once
                        match list_all_tables(&ns, p, Some(page)).await {
                            Ok(mut paged) => {
                                paged.sort();
                                if paged != got {
                                    res.violate("C36", "paging", &format!("paged-list-tables:{}", mode), step, format!("list_tables({:?}) with limit {} = {:?}, unpaged {:?}", p, page, paged, got));
                                }
                                res.probe("paged-listings");
                            }
                            Err(e) => res.violate("C36", "paging", &format!("paged-list-error:{}", err_class(&e)), step, e),
                        }
                    }
                    Err(e) => res.violate("C36", "map", &format!("list-tables-error:{}:{}", mode, err_class(&e)), step, format!("list_tables({:?}) failed: {}", p, e)),
                }
                if nested {
                    let exp: Vec<String> = m.namespaces.iter().filter(|n| n.len() == p.len() + 1 && n[..p.len()] == p[..]).map(|n| n.last().unwrap().clone()).collect();
                    match list_all_namespaces(&ns, p, None).await {
                        Ok(mut got) => {
                            got.sort();
                            let mut e = exp.clone();
                            e.sort();
                            if got != e {
                                res.violate("C36", "map", &format!("list-namespaces-mismatch:{}", mode), step, format!("after {}: list_namespaces({:?}) = {:?} model {:?}", desc, p, got, e));
                            }
                        }
                        Err(e) => res.violate("C36", "map", &format!("list-namespaces-error:{}", err_class(&e)), step, format!("list_namespaces({:?}) failed: {}", p, e)),
                    }
                }
            }
            for (p, n) in m.tables.iter() {
                let mut id = p.clone();
                id.push(n.clone());
                if ns.table_exists(TableExistsRequest { id: Some(id.clone()), version: None }).await.is_err() {
                    res.violate("C36", "map", "created-table-missing", step, format!("after {}: table {:?} was created and not dropped but table_exists fails", desc, id));
                }
                if let Err(e) = ns.describe_table(DescribeTableRequest { id: Some(id.clone()), version: None }).await {
                    res.violate("C36", "map", &format!("describe-table-error:{}", err_class(&e.to_string())), step, format!("after {}: describe_table({:?}) failed: {}", desc, id, e));
                }
            }
            if nested {
                for p in m.namespaces.iter() {
                    if ns.namespace_exists(NamespaceExistsRequest { id: Some(p.clone()) }).await.is_err() {
                        res.violate("C36", "map", "created-namespace-missing", step, format!("after {}: namespace {:?} was created and not dropped but namespace_exists fails", desc, p));
                    }
                }
            }
        })
        .await;
        if let Err(p) = out {
            res.violate("C36", "panic", &format!("panic:{}", panic_sig(&p)), step, p);
        }
        if !res.violations.is_empty() {
            break;
        }
    }
    res.steps = nsteps;
    res.nontrivial = res.kinds.len() >= 3;
    res.interleaving_hash = crate::rng::mix(&res.kinds.iter().map(|k| crate::rng::hash_str(k)).chain(std::iter::once(crate::rng::hash_str(&mode))).collect::<Vec<_>>());
    {
        let g = w.lock();
        res.calls = g.stats.calls;
    }
    res.digest = w.digest();
    let _: BTreeMap<u8, u8> = BTreeMap::new();
    res.wall_ms = t0.elapsed().as_millis() as u64;
    res
}

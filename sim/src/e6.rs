//! E6: MemWAL index state machine under concurrency (C39).

use std::collections::{BTreeMap, BTreeSet};
use std::sync::{Arc, Mutex};

use lance::index::mem_wal::*;
use lance_index::mem_wal::{MemWalIndexDetails, State, MEM_WAL_INDEX_NAME};
use lance_index::DatasetIndexExt;
use lance_table::format::pb;

use crate::driver::{drive, SchedCfg};
use crate::e1::{err_class, guarded, panic_sig};
use crate::handlers::HandlerKind;
use crate::model::*;
use crate::rng::Rng;
use crate::runres::{RunCfg, RunResult};
use crate::table::*;
use crate::world::{LanceKnobs, Party, World};

const URI: &str = "sim://bucket/mw";

fn rank(s: &State) -> u8 {
    match s {
        State::Open => 0,
        State::Sealed => 1,
        State::Flushed => 2,
        State::Merged => 3,
    }
}

type Snapshot = BTreeMap<String, BTreeMap<u64, (u8, String)>>;

async fn read_memwal(ds: &lance::Dataset) -> Result<Snapshot, String> {
    let idx = ds.load_indices().await.map_err(|e| e.to_string())?;
    let mut out: Snapshot = BTreeMap::new();
    let mut seen = BTreeSet::new();
    for i in idx.iter().filter(|i| i.name == MEM_WAL_INDEX_NAME) {
        let any = match &i.index_details {
            Some(a) => a,
            None => continue,
        };
        let msg: pb::MemWalIndexDetails = any.to_msg().map_err(|e| e.to_string())?;
        let det = MemWalIndexDetails::try_from(msg).map_err(|e| e.to_string())?;
        for m in det.mem_wal_list.iter() {
            if !seen.insert((m.id.region.clone(), m.id.generation)) {
                return Err(format!("generation ({}, {}) appears twice", m.id.region, m.id.generation));
            }
            out.entry(m.id.region.clone()).or_default().insert(m.id.generation, (rank(&m.state), m.owner_id.clone()));
        }
    }
    Ok(out)
}

#[derive(Clone, Debug)]
struct OpRec {
    actor: u32,
    what: String,
    region: String,
    /// generation(s) touched; u64::MAX = ownership/advance of the region's latest
    gens: Vec<u64>,
    start_version: u64,
    result: Result<u64, String>,
}

pub async fn run(cfg: RunCfg) -> RunResult {
    let t0 = std::time::Instant::now();
    let mut res = RunResult::new(&cfg);
    let mut rng = Rng::new(cfg.seed);
    let w = World::new();
    let hk = *rng.pick(&HandlerKind::ATOMIC);
    let knobs = LanceKnobs { io_parallelism: 4, ..Default::default() };
    let p0 = Arc::new(Party::new(&w, 0, knobs.clone()));
    let ctx0 = Ctx::new(p0, URI, hk);
    res.knobs.insert("handler".into(), format!("{:?}", hk));
    let cols = default_cols();
    let mut gen = crate::e1::Gen::new();
    let rows = gen.fresh_rows(&mut rng, &cols, 5);
    let mut ds = match ctx0.create(&cols, &rows, 10).await {
        Ok(d) => d,
        Err(e) => return RunResult::harness_error(&cfg, format!("create failed: {}", e)),
    };
    // sequential prefix: a few generations so that parties have something to fight over
    let regions = if rng.chance(0.5) { vec!["r0".to_string()] } else { vec!["r0".to_string(), "r1".to_string()] };
    let mut loc = 0u64;
    for r in regions.iter() {
        let n = rng.range(0, 2);
        let mut owner: Option<String> = None;
        for _ in 0..n {
            loc += 1;
            let new_owner = format!("o{}", loc);
            let rr = advance_mem_wal_generation(&mut ds, r, &format!("mt{}", loc), &format!("wal{}", loc), owner.as_deref(), &new_owner).await;
            if rr.is_ok() {
                owner = Some(new_owner);
            }
        }
    }
    let base_v = ds.version().version;
    let nparties = if cfg.thorough() { rng.range(2, 4) } else { rng.range(2, 3) } as usize;
    let recs: Arc<Mutex<Vec<OpRec>>> = Arc::new(Mutex::new(Vec::new()));
    let mut actors = Vec::new();
    let mut tasks = Vec::new();
    w.set_gated(true);
    for i in 0..nparties {
        let actor = 10 + i as u32;
        let party = Arc::new(Party::new(&w, actor, knobs.clone()));
        let ctx = ctx0.for_party(party);
        let recs = recs.clone();
        let regions = regions.clone();
        let mut prng = rng.fork(actor as u64);
        let nops = if cfg.thorough() { rng.range(2, 7) } else { rng.range(1, 4) };
        actors.push(actor);
        tasks.push(tokio::spawn(async move {
            let r = guarded(async {
                let mut ds = match ctx.open().await {
                    Ok(d) => d,
                    Err(_) => return,
                };
                for k in 0..nops {
                    if ds.checkout_latest().await.is_err() {
                        continue;
                    }
                    let start = ds.version().version;
                    let snap = read_memwal(&ds).await.unwrap_or_default();
                    let region = prng.pick(&regions).clone();
                    let gens = snap.get(&region).cloned().unwrap_or_default();
                    let latest = gens.iter().next_back().map(|(g, v)| (*g, v.clone()));
                    let uniq = format!("{}-{}", actor, k);
                    let choice = prng.below(11);
                    let (what, touched, result): (String, Vec<u64>, Result<(), lance_core::Error>) = match (choice, &latest) {
                        (0 | 1, _) | (_, None) => {
                            let exp = latest.as_ref().map(|(_, (_, o))| o.clone());
                            let r = advance_mem_wal_generation(&mut ds, &region, &format!("mt-{}", uniq), &format!("wal-{}", uniq), exp.as_deref(), &format!("own-{}", uniq)).await;
                            // advance adds generation g+1 and seals generation g only if g is still open
                            let mut touched = vec![latest.as_ref().map(|(g, _)| *g + 1).unwrap_or(0)];
                            if let Some((g, (st, _))) = &latest {
                                if *st == 0 {
                                    touched.push(*g);
                                }
                            }
                            ("advance".into(), touched, r)
                        }
                        (2 | 3, Some((g, (_, o)))) => {
                            let r = append_mem_wal_entry(&mut ds, &region, *g, prng.below(100) + (k as u64) * 100, o).await.map(|_| ());
                            ("append".into(), vec![*g], r)
                        }
                        (4, Some((g, (_, o)))) => {
                            let r = mark_mem_wal_as_sealed(&mut ds, &region, *g, o).await.map(|_| ());
                            ("seal".into(), vec![*g], r)
                        }
                        (5, Some(_)) => {
                            // flush some sealed generation (or a random one: must then fail)
                            let pick = gens.iter().find(|(_, (s, _))| *s == 1).or_else(|| gens.iter().next()).map(|(g, v)| (*g, v.clone())).unwrap();
                            let r = mark_mem_wal_as_flushed(&mut ds, &region, pick.0, &pick.1 .1).await.map(|_| ());
                            ("flush".into(), vec![pick.0], r)
                        }
                        (6, Some(_)) => {
                            let pick = gens.iter().find(|(_, (s, _))| *s == 2).or_else(|| gens.iter().next()).map(|(g, v)| (*g, v.clone())).unwrap();
                            let r = mark_mem_wal_as_merged(&mut ds, &region, pick.0, &pick.1 .1).await.map(|_| ());
                            ("merge".into(), vec![pick.0], r)
                        }
                        (7, Some((g, _))) => {
                            let r = update_mem_wal_owner(&mut ds, &region, *g, &format!("own-{}", uniq), None).await.map(|_| ());
                            ("owner".into(), vec![*g], r)
                        }
                        (9 | 10, Some(_)) => {
                            // merge_insert that carries "this flushed generation is merged by me"
                            let pick = gens.iter().find(|(_, (s, _))| *s == 2).or_else(|| gens.iter().next()).map(|(g, v)| (*g, v.clone())).unwrap();
                            let r = async {
                                use lance::dataset::{MergeInsertBuilder, WhenMatched as LWhenMatched, WhenNotMatched as LWhenNotMatched};
                                let cols = default_cols();
                                let kbase = 1000 + (actor as i64) * 100 + (k as i64) * 10;
                                let rows: Vec<Row> = (0..2).map(|j| vec![Val::I(kbase + j), Val::I(kbase + j), Val::I(j), Val::S(format!("m{}", uniq)), Val::Null]).collect();
                                let batch = rows_to_batch(&cols, &rows);
                                let mut b = MergeInsertBuilder::try_new(Arc::new(ds.clone()), vec!["k".to_string()])?;
                                b.when_matched(LWhenMatched::UpdateAll);
                                b.when_not_matched(LWhenNotMatched::InsertAll);
                                b.mark_mem_wal_as_merged(lance_index::mem_wal::MemWalId::new(&region, pick.0), &pick.1 .1).await?;
                                let job = b.try_build()?;
                                let schema = batch.schema();
                                let reader = arrow_array::RecordBatchIterator::new(vec![Ok(batch)], schema);
                                let (new, _stats) = job.execute_reader(Box::new(reader)).await?;
                                ds = new.as_ref().clone();
                                lance_core::Result::Ok(())
                            }
                            .await;
                            ("merge-data".into(), vec![pick.0], r)
                        }
                        (_, Some(_)) => {
                            let r = trim_mem_wal_index(&mut ds).await;
                            ("trim".into(), gens.iter().filter(|(_, (s, _))| *s == 3).map(|(g, _)| *g).collect(), r)
                        }
                    };
                    let result = match result {
                        Ok(()) => Ok(ds.version().version),
                        Err(e) => Err(e.to_string()),
                    };
                    recs.lock().unwrap().push(OpRec { actor, what, region, gens: touched, start_version: start, result });
                }
            })
            .await;
            if let Err(p) = r {
                recs.lock().unwrap().push(OpRec { actor, what: "PANIC".into(), region: String::new(), gens: vec![], start_version: 0, result: Err(format!("PANIC {}", p)) });
            }
        }));
    }
    let sc = SchedCfg { p_reorder: 0.1, p_stick: rng.f64() * 0.8, ..Default::default() };
    let out = drive(&w, &mut rng, &sc, &actors, &mut tasks, cfg.trace).await;
    w.set_gated(false);
    res.interleaving_hash = out.hash;
    res.nontrivial = out.overlapped;
    res.steps = out.decisions;
    res.trace = out.trace.clone();
    if out.stuck {
        res.violate("C39", "liveness", "stuck", 0, "MemWAL round made no progress".into());
    }
    if out.overlapped {
        res.probe("overlapped");
    }
    let recs = recs.lock().unwrap().clone();
    for r in recs.iter() {
        res.script.push(format!("a{} {} {} gens {:?} @v{} -> {:?}", r.actor, r.what, r.region, r.gens, r.start_version, r.result.as_ref().map_err(|e| err_class(e))));
        match &r.result {
            Ok(_) => res.probe(&format!("ok-{}", r.what)),
            Err(e) if e.starts_with("PANIC") => res.violate("C39", "panic", &format!("panic:{}", panic_sig(e)), 0, e.clone()),
            Err(_) => res.probe(&format!("err-{}", r.what)),
        }
    }
    // ---- monitor over the version history ----
    let pf = Arc::new(Party::new(&w, 90, knobs.clone()));
    let ctxf = ctx0.for_party(pf);
    let latest = match ctxf.open().await {
        Ok(d) => d,
        Err(e) => {
            res.violate("C39", "open", "cannot-open", 0, e.to_string());
            res.wall_ms = t0.elapsed().as_millis() as u64;
            return res;
        }
    };
    let l = latest.version().version;
    let mut prev: Option<Snapshot> = None;
    let mut trimmed: BTreeSet<(String, u64)> = BTreeSet::new();
    let mut ever: BTreeSet<(String, u64)> = BTreeSet::new();
    for v in 1..=l {
        let dv = match latest.checkout_version(v).await {
            Ok(d) => d,
            Err(e) => {
                res.violate("C01", "dense-versions", "version-missing", 0, format!("version {}: {}", v, e));
                continue;
            }
        };
        let snap = match read_memwal(&dv).await {
            Ok(s) => s,
            Err(e) => {
                res.violate("C39", "unique-generation", "duplicate-generation", v, format!("version {}: {}", v, e));
                continue;
            }
        };
        for (region, gens) in snap.iter() {
            let maxg = *gens.keys().next_back().unwrap();
            let ming = *gens.keys().next().unwrap();
            for g in ming..=maxg {
                if !gens.contains_key(&g) && !trimmed.contains(&(region.clone(), g)) && !ever.contains(&(region.clone(), g)) {
                    res.violate("C39", "consecutive", "generation-gap", v, format!("version {} region {}: generation {} missing between {} and {}", v, region, g, ming, maxg));
                }
            }
            for (g, (s, _)) in gens.iter() {
                if *s == 0 && *g != maxg {
                    res.violate("C39", "only-latest-open", "older-generation-open", v, format!("version {} region {}: generation {} is open but {} is the latest", v, region, g, maxg));
                }
                if trimmed.contains(&(region.clone(), *g)) {
                    // KF-17: after *every* generation of the region was trimmed, the next advance starts at 0 again
                    let region_was_empty = prev.as_ref().map(|p| p.get(region).map(|m| m.is_empty()).unwrap_or(true)).unwrap_or(true);
                    let sig = if region_was_empty && *s == 0 { "trimmed-generation-reappeared:numbering-restart-after-full-trim" } else { "trimmed-generation-reappeared" };
                    res.violate("C39", "trimmed-stays-gone", sig, v, format!("version {} region {}: generation {} was trimmed earlier and is back", v, region, g));
                }
                ever.insert((region.clone(), *g));
            }
            if let Some(p) = &prev {
                if let Some(pg) = p.get(region) {
                    for (g, (ps, _)) in pg.iter() {
                        match gens.get(g) {
                            Some((s, _)) => {
                                if s < ps {
                                    res.violate("C39", "forward-only", "state-went-back", v, format!("version {} region {}: generation {} state {} -> {}", v, region, g, ps, s));
                                }
                            }
                            None => {
                                if *ps != 3 {
                                    res.violate("C39", "trim-only-merged", "unmerged-generation-removed", v, format!("version {} region {}: generation {} disappeared in state {}", v, region, g, ps));
                                }
                                trimmed.insert((region.clone(), *g));
                            }
                        }
                    }
                    // the new max generation must be old max + 1 at most
                    if let (Some(pm), Some(nm)) = (pg.keys().next_back(), gens.keys().next_back()) {
                        if *nm > *pm + 1 {
                            res.violate("C39", "consecutive", "generation-skipped", v, format!("version {} region {}: latest generation jumped {} -> {}", v, region, pm, nm));
                        }
                    }
                }
            }
        }
        // regions that vanished entirely
        if let Some(p) = &prev {
            for (region, pg) in p.iter() {
                if !snap.contains_key(region) {
                    for (g, (ps, _)) in pg.iter() {
                        if *ps != 3 {
                            res.violate("C39", "trim-only-merged", "unmerged-generation-removed", v, format!("version {}: region {} generation {} disappeared in state {}", v, region, g, ps));
                        }
                        trimmed.insert((region.clone(), *g));
                    }
                }
            }
        }
        prev = Some(snap);
    }
    // ---- concurrent changes to the same generation / ownership never both commit ----
    let committed: Vec<&OpRec> = recs.iter().filter(|r| r.result.is_ok() && r.what != "trim").collect();
    for (i, a) in committed.iter().enumerate() {
        for b in committed.iter().skip(i + 1) {
            if a.actor == b.actor || a.region != b.region {
                continue;
            }
            let (va, vb) = (*a.result.as_ref().unwrap(), *b.result.as_ref().unwrap());
            let concurrent = a.start_version < vb && b.start_version < va;
            let ownership = |x: &OpRec| x.what == "owner" || x.what == "advance";
            let same_gen = a.gens.iter().any(|g| b.gens.contains(g)) || (ownership(a) && ownership(b) && (a.what == "owner" || b.what == "owner"));
            if concurrent && same_gen {
                res.violate("C39", "no-concurrent-same-generation", &format!("both-committed:{}+{}", a.what.clone().min(b.what.clone()), a.what.clone().max(b.what.clone())), 0, format!("a{} {} (started v{}, committed v{}) and a{} {} (started v{}, committed v{}) both changed region {} generations {:?}/{:?}", a.actor, a.what, a.start_version, va, b.actor, b.what, b.start_version, vb, a.region, a.gens, b.gens));
            }
        }
    }
    let _ = base_v;
    {
        let g = w.lock();
        res.calls = g.stats.calls;
        res.faults = g.stats.faults.clone();
    }
    res.kinds = recs.iter().map(|r| r.what.clone()).collect();
    res.wall_ms = t0.elapsed().as_millis() as u64;
    res
}

//! E1 `maint`: cleanup of old versions never removes what a retained version needs (C08),
//! sequentially under random policies / clock jumps / orphans of crashed writers, and
//! interleaved with a concurrent writer at every storage call.

use std::collections::{BTreeMap, BTreeSet};
use std::sync::Arc;

use chrono::{TimeZone, Utc};
use lance::dataset::cleanup::{CleanupPolicy, CleanupPolicyBuilder};

use crate::driver::{drive, SchedCfg};
use crate::e1::{diff_rows, err_class, guarded, panic_sig, sorted, Mix, Runner};
use crate::model::*;
use crate::runres::{RunCfg, RunResult};
use crate::table::*;
use crate::world::{Decision, Party};

const HOUR: i64 = 3_600_000_000_000;
const DAY: i64 = 24 * HOUR;

struct Maint {
    /// versions that exist according to the model
    alive: BTreeSet<u64>,
    /// commit time (simulated wall clock, ns) of each version
    ts: BTreeMap<u64, i64>,
    tagged: BTreeMap<String, u64>,
    ntags: u32,
}

#[derive(Clone, Debug)]
struct Policy {
    older_than_ns: Option<i64>,
    before_version: Option<u64>,
    retain_n: Option<usize>,
    delete_unverified: bool,
}

impl Policy {
    fn brief(&self) -> String {
        format!("cleanup(older_than={:?}h, before_version={:?}, retain_n={:?}, delete_unverified={})", self.older_than_ns.map(|n| n / HOUR), self.before_version, self.retain_n, self.delete_unverified)
    }
}

fn gen_policy(r: &mut Runner, latest: u64) -> Policy {
    let mut p = Policy { older_than_ns: None, before_version: None, retain_n: None, delete_unverified: r.rng.chance(0.3) };
    match r.rng.below(4) {
        0 => p.older_than_ns = Some(*r.rng.pick(&[0i64, HOUR, DAY, 8 * DAY, 30 * DAY])),
        1 => p.before_version = Some(r.rng.range(1, latest as i64 + 1) as u64),
        2 => p.retain_n = Some(r.rng.range(1, 4) as usize),
        _ => {
            p.older_than_ns = Some(*r.rng.pick(&[0i64, DAY, 8 * DAY]));
            p.before_version = Some(r.rng.range(1, latest as i64 + 1) as u64);
        }
    }
    p
}

async fn build_policy(ds: &lance::Dataset, p: &Policy, now_ns: i64) -> Result<CleanupPolicy, String> {
    let mut b = CleanupPolicyBuilder::default();
    if let Some(o) = p.older_than_ns {
        b = b.before_timestamp(Utc.timestamp_nanos(now_ns - o));
    }
    if let Some(n) = p.retain_n {
        b = b.retain_n_versions(ds, n).await.map_err(|e| e.to_string())?;
    }
    b = b.delete_unverified(p.delete_unverified).error_if_tagged_old_versions(false);
    let mut pol = b.build();
    if let Some(v) = p.before_version {
        pol.before_version = Some(v);
    }
    Ok(pol)
}

pub async fn run_maint(cfg: RunCfg) -> RunResult {
    let t0 = std::time::Instant::now();
    let conc = cfg.opt_bool("race").unwrap_or(false);
    let mut r = match Runner::new(cfg.clone()).await {
        Ok(r) => r,
        Err(res) => return res,
    };
    r.gen.inexact_indices = false;
    let mut mix = Mix::general();
    mix.restore = 1;
    mix.add_col = 1;
    mix.drop_col = 0;
    mix.rename_col = 0;
    let mut m = Maint { alive: BTreeSet::new(), ts: BTreeMap::new(), tagged: BTreeMap::new(), ntags: 0 };
    let v0 = r.ds.version().version;
    m.alive.insert(v0);
    m.ts.insert(v0, r.w.now_ns());
    let nsteps = {
        let drawn = if cfg.thorough() { r.rng.range(8, 22) } else { r.rng.range(5, 12) } as u64;
        cfg.max_steps.map(|x| x.min(drawn)).unwrap_or(drawn)
    };
    for step in 0..nsteps {
        r.step = step;
        // random numbers are drawn identically whether or not the step is skipped
        let jump = if r.rng.chance(0.5) { *r.rng.pick(&[HOUR, DAY, 3 * DAY, 8 * DAY]) } else { 0 };
        let roll = r.rng.below(100);
        let versions: Vec<u64> = r.history.keys().cloned().collect();
        let op = {
            let Runner { gen, rng, st, .. } = &mut r;
            gen.gen_op(rng, st, &mix, &versions)
        };
        let latest = r.ds.version().version;
        let pol = gen_policy(&mut r, latest);
        let tag_v = { let a: Vec<u64> = m.alive.iter().cloned().collect(); a[r.rng.usize(a.len())] };
        let crash_at = r.rng.range(2, 9) as u64;
        if cfg.skip.contains(&step) {
            continue;
        }
        if jump > 0 {
            r.w.advance_clock(jump);
        }
        let out = guarded(async {
            if roll < 50 {
                // an ordinary operation
                let before = r.ds.version().version;
                // restore only to versions that still exist
                if let Op::Restore { version } = &op {
                    if !m.alive.contains(version) {
                        return;
                    }
                }
                r.do_op(&op).await;
                let k = format!("{}{}", crate::e1::op_sig_kind(&op, &r.st), r.history_tags(&op, &[]));
                r.o_scan(crate::e1::prop_for_op(&op), &k).await;
                let after = r.ds.version().version;
                for v in (before + 1)..=after {
                    m.alive.insert(v);
                    m.ts.insert(v, r.w.now_ns());
                }
            } else if roll < 62 {
                // tag a surviving version
                m.ntags += 1;
                let name = format!("tag{}", m.ntags);
                match r.ds.tags().create(&name, tag_v).await {
                    Ok(()) => {
                        m.tagged.insert(name.clone(), tag_v);
                        r.res.script.push(format!("{}: tag {} -> v{}", step, name, tag_v));
                        r.res.kinds.push("tag".into());
                    }
                    Err(e) => r.res.violate("C09", "tag-create", &format!("tag-create-error:{}", err_class(&e.to_string())), step, format!("tag {} on existing version {} failed: {}", name, tag_v, e)),
                }
            } else if roll < 74 {
                // a writer that dies mid-way and leaves orphan files behind
                let actor = 700 + step as u32;
                let party = Arc::new(Party::new(&r.w, actor, r.ctx.party.knobs.clone()));
                let ctx = r.ctx.for_party(party);
                r.w.set_plan(actor, crash_at, Decision::CrashPre);
                let rows = { let Runner { gen, rng, st, .. } = &mut r; gen.fresh_rows(rng, &st.cols, 12) };
                let aop = Op::Append { rows, per_file: 4, batches: 1 };
                let st = r.st.clone();
                let res = async {
                    let mut ds = ctx.open().await?;
                    with_deadline(3600, "crashing append", exec_op(&ctx, &mut ds, &st, &aop)).await
                }
                .await;
                r.w.clear_plan();
                r.w.kill(actor);
                r.res.script.push(format!("{}: crashed append at call #{} -> {}", step, crash_at, if res.is_ok() { "committed" } else { "died" }));
                r.res.kinds.push("crashed-writer".into());
                if res.is_ok() {
                    // the crash point was beyond its last call: it is an ordinary append
                    let mut post = r.st.clone();
                    let _ = model_apply(&mut post, &aop, &r.history);
                    let _ = r.ds.checkout_latest().await;
                    let nv = r.ds.version().version;
                    r.st = post;
                    r.history.insert(nv, r.st.clone());
                    m.alive.insert(nv);
                    m.ts.insert(nv, r.w.now_ns());
                } else {
                    r.res.probe("orphans-left");
                }
            } else {
                do_cleanup(&mut r, &mut m, &pol, step).await;
            }
        })
        .await;
        if let Err(p) = out {
            r.res.violate("C08", "panic", &format!("panic:{}", panic_sig(&p)), step, p);
        }
        if !r.res.violations.is_empty() {
            break;
        }
    }
    r.step = nsteps;
    if r.res.violations.is_empty() && conc {
        let out = guarded(race_round(&mut r, &mut m, &cfg)).await;
        if let Err(p) = out {
            r.res.violate("C08", "panic", &format!("panic:{}", panic_sig(&p)), nsteps, p);
        }
    } else if r.res.violations.is_empty() {
        let latest = r.ds.version().version;
        let pol = gen_policy(&mut r, latest);
        let out = guarded(do_cleanup(&mut r, &mut m, &pol, nsteps)).await;
        if let Err(p) = out {
            r.res.violate("C08", "panic", &format!("panic:{}", panic_sig(&p)), nsteps, p);
        }
    }
    r.res.nontrivial = r.res.kinds.len() >= 3;
    if !conc {
        r.res.interleaving_hash = crate::rng::mix(&r.res.kinds.iter().map(|k| crate::rng::hash_str(k)).collect::<Vec<_>>());
    }
    let mut res = r.finish();
    res.wall_ms = t0.elapsed().as_millis() as u64;
    res
}

async fn do_cleanup(r: &mut Runner, m: &mut Maint, pol: &Policy, step: u64) {
    let _ = r.ds.checkout_latest().await;
    let latest = r.ds.version().version;
    let now = r.w.now_ns();
    // the job may run from a handle that is behind the latest version (another writer committed
    // since it was opened): a surviving older version is checked out for that
    let stale: Option<u64> = if r.rng.chance(0.3) { m.alive.iter().rev().nth(r.rng.usize(3)).cloned().filter(|v| *v < latest) } else { None };
    let handle = match stale {
        Some(v) => match r.ds.checkout_version(v).await {
            Ok(d) => {
                r.res.probe("cleanup-from-stale-handle");
                d
            }
            Err(_) => r.ds.clone(),
        },
        None => r.ds.clone(),
    };
    let policy = match build_policy(&handle, pol, now).await {
        Ok(p) => p,
        Err(e) => {
            r.res.violate("C08", "cleanup-policy", "policy-error", step, e);
            return;
        }
    };
    let before_ts = policy.before_timestamp.map(|t| t.timestamp_nanos_opt().unwrap_or(0));
    let before_version = policy.before_version;
    let dlog_start = r.w.lock().delete_log.len();
    r.res.script.push(format!("{}: {} at latest v{}{}", step, pol.brief(), latest, stale.map(|v| format!(" through a handle at v{}", v)).unwrap_or_default()));
    r.res.kinds.push(if stale.is_some() { "cleanup-stale-handle".into() } else { "cleanup".into() });
    let res = handle.cleanup_with_policy(policy).await;
    let stats = match res {
        Ok(s) => s,
        Err(e) => {
            r.res.violate("C08", "cleanup-runs", &format!("cleanup-error:{}", err_class(&e.to_string())), step, format!("{} failed: {}", pol.brief(), e));
            return;
        }
    };
    if stats.old_versions > 0 {
        r.res.probe("cleanup-removed-versions");
    }
    let deleted: Vec<String> = r.w.lock().delete_log[dlog_start..].iter().map(|(_, p)| p.clone()).collect();
    if deleted.iter().any(|p| p.contains("/data/")) {
        r.res.probe("cleanup-deleted-data-file");
    }
    // which versions may the policy remove?  (10 s guard band around the time boundary)
    let tagged: BTreeSet<u64> = m.tagged.values().cloned().collect();
    let guard = 10_000_000_000i64;
    let selected = |v: u64, strict: bool| -> bool {
        if v == latest || tagged.contains(&v) {
            return false;
        }
        let mut s = true;
        if let Some(bt) = before_ts {
            let t = m.ts.get(&v).cloned().unwrap_or(0);
            s &= if strict { t + guard < bt } else { t - guard < bt };
        }
        if let Some(bv) = before_version {
            s &= v < bv;
        }
        s
    };
    let party = r.fresh_party();
    let ctx = r.ctx.for_party(party);
    let ds = match ctx.open().await {
        Ok(d) => d,
        Err(e) => {
            r.res.violate("C08", "retained-readable", "latest-unreadable-after-cleanup", step, format!("after {}: open failed: {}", pol.brief(), e));
            return;
        }
    };
    let remaining: BTreeSet<u64> = match ds.versions().await {
        Ok(v) => v.iter().map(|x| x.version).collect(),
        Err(e) => {
            r.res.violate("C08", "retained-readable", "versions-error-after-cleanup", step, e.to_string());
            return;
        }
    };
    for v in m.alive.iter() {
        if !remaining.contains(v) && !selected(*v, false) {
            let why = if *v == latest { "the latest version" } else if tagged.contains(v) { "a tagged version" } else { "a version the policy keeps" };
            r.res.violate("C08", "only-selected-removed", &format!("removed-unselected-version:{}", if tagged.contains(v) { "tagged" } else if *v == latest { "latest" } else { "kept-by-policy" }), step, format!("{} removed version {} which is {} (commit time {}, policy before_ts {:?} before_version {:?})", pol.brief(), v, why, m.ts.get(v).cloned().unwrap_or(0), before_ts, before_version));
        }
    }
    for v in remaining.iter() {
        if !m.alive.contains(v) {
            r.res.violate("C08", "only-selected-removed", "version-reappeared", step, format!("version {} listed after cleanup but it had been removed before", v));
        }
    }
    m.alive = m.alive.intersection(&remaining).cloned().collect();
    // every retained version is fully readable and unchanged
    for v in m.alive.clone().iter() {
        let exp = match r.history.get(v) {
            Some(s) => s.clone(),
            None => continue,
        };
        match ds.checkout_version(*v).await {
            Ok(dv) => match scan_all(&dv, false).await {
                Ok((_, rows)) => {
                    if sorted(&rows) != exp.sorted_rows() {
                        r.res.violate("C08", "retained-readable", "retained-version-content", step, format!("after {}: version {}: {}", pol.brief(), v, diff_rows(&exp.rows, &rows)));
                    }
                }
                Err(e) => r.res.violate("C08", "retained-readable", &format!("retained-version-unreadable:{}{}", if tagged.contains(v) { "tagged" } else if *v == latest { "latest" } else { "kept" }, if pol.delete_unverified { ":delete-unverified" } else { "" }), step, format!("after {}: scan of retained version {} failed: {}", pol.brief(), v, e)),
            },
            Err(e) => r.res.violate("C08", "retained-readable", &format!("retained-version-unopenable:{}", if tagged.contains(v) { "tagged" } else { "kept" }), step, format!("after {}: retained version {} cannot be opened: {}", pol.brief(), v, e)),
        }
    }
    // tags still resolve
    for (t, v) in m.tagged.iter() {
        if let Err(e) = ds.checkout_version(t.as_str()).await {
            r.res.violate("C08", "retained-readable", "tag-unresolvable-after-cleanup", step, format!("after {}: tag {} -> v{}: {}", pol.brief(), t, v, e));
        }
    }
    let _ = r.ds.checkout_latest().await;
}

/// A writer and a cleanup job interleaved at every storage call.
async fn race_round(r: &mut Runner, m: &mut Maint, cfg: &RunCfg) {
    let step = r.step;
    let mix = { let mut x = Mix::general(); x.restore = 0; x.overwrite = 0; x.drop_col = 0; x.rename_col = 0; x.add_col = 0; x.config = 0; x.drop_index = 0; x };
    let versions: Vec<u64> = r.history.keys().cloned().collect();
    let mut op;
    let mut post;
    let mut tries = 0;
    loop {
        op = { let Runner { gen, rng, st, .. } = &mut *r; gen.gen_op(rng, st, &mix, &versions) };
        post = r.st.clone();
        if model_apply(&mut post, &op, &r.history).is_ok() || tries > 20 {
            break;
        }
        tries += 1;
    }
    let latest = r.ds.version().version;
    // aggressive policy: everything except the latest may go; unverified files are protected by their age
    let pol = Policy { older_than_ns: Some(0), before_version: None, retain_n: None, delete_unverified: false };
    r.res.script.push(format!("{}: race: writer {} || {}", step, op.brief(), pol.brief()));
    r.res.kinds.push(format!("race:{}", op.kind()));
    let knobs = r.ctx.party.knobs.clone();
    let (wa, ca) = (800u32, 801u32);
    let wctx = r.ctx.for_party(Arc::new(Party::new(&r.w, wa, knobs.clone())));
    let cctx = r.ctx.for_party(Arc::new(Party::new(&r.w, ca, knobs.clone())));
    let st = r.st.clone();
    let op2 = op.clone();
    let now = r.w.now_ns();
    r.w.set_gated(true);
    let wt = tokio::spawn(async move {
        let res = guarded(async {
            let mut ds = wctx.open().await.map_err(|e| e.to_string())?;
            with_deadline(2_592_000, "racing writer", exec_op(&wctx, &mut ds, &st, &op2)).await.map_err(|e| e.to_string())?;
            Ok::<u64, String>(ds.version().version)
        })
        .await;
        match res {
            Ok(x) => x,
            Err(p) => Err(format!("PANIC {}", p)),
        }
    });
    let pol2 = pol.clone();
    let ct = tokio::spawn(async move {
        let res = guarded(async {
            let ds = cctx.open().await.map_err(|e| e.to_string())?;
            // like `cleanup_old_versions(older_than)`: the cut-off is "now" when the job starts working,
            // which may be after a concurrent writer published a version this handle does not know
            let now = chrono::Utc::now().timestamp_nanos_opt().unwrap_or(now);
            let policy = build_policy(&ds, &pol2, now).await?;
            ds.cleanup_with_policy(policy).await.map_err(|e| e.to_string())?;
            Ok::<u64, String>(0)
        })
        .await;
        match res {
            Ok(x) => x,
            Err(p) => Err(format!("PANIC {}", p)),
        }
    });
    let mut tasks = vec![wt, ct];
    let sc = SchedCfg { p_reorder: 0.1, p_stick: r.rng.f64() * 0.9, ..Default::default() };
    let out = drive(&r.w, &mut r.rng, &sc, &[wa, ca], &mut tasks, cfg.trace).await;
    r.w.set_gated(false);
    r.res.interleaving_hash = out.hash;
    if out.overlapped {
        r.res.probe("overlapped");
    }
    if cfg.trace {
        r.res.trace.extend(out.trace.iter().cloned());
    }
    if out.stuck {
        r.res.violate("C08", "liveness", "stuck-race", step, "writer || cleanup made no progress".into());
        return;
    }
    let mut results = Vec::new();
    for t in tasks {
        results.push(t.await.unwrap_or(Err("aborted".into())));
    }
    let wres = &results[0];
    let cres = &results[1];
    for (who, x) in [("writer", wres), ("cleanup", cres)] {
        if let Err(e) = x {
            if e.starts_with("PANIC") {
                r.res.violate("C08", "panic", &format!("panic:{}", panic_sig(e)), step, format!("{} panicked: {}", who, e));
            }
        }
    }
    match cres {
        Ok(_) => r.res.probe("race-cleanup-ok"),
        Err(_) => r.res.probe("race-cleanup-failed"),
    }
    // whatever happened: the latest version is complete
    let party = r.fresh_party();
    let ctx = r.ctx.for_party(party);
    let ds = match ctx.open().await {
        Ok(d) => d,
        Err(e) => {
            r.res.violate("C08", "race", "latest-unopenable-after-race", step, format!("after writer {} || cleanup: {}", op.brief(), e));
            return;
        }
    };
    let l = ds.version().version;
    let expect = match wres {
        Ok(v) => {
            r.res.probe("race-writer-committed");
            if *v != l && *v > latest {
                // compaction style multi-commit: fine as long as contents match below
            }
            post.clone()
        }
        Err(_) => {
            r.res.probe("race-writer-failed");
            if l == latest { r.st.clone() } else { post.clone() }
        }
    };
    match scan_all(&ds, false).await {
        Ok((_, rows)) => {
            let ok = sorted(&rows) == expect.sorted_rows() || (wres.is_err() && sorted(&rows) == r.st.sorted_rows());
            if !ok {
                r.res.violate("C08", "race", &format!("content-after-race:{}{}", crate::e1::op_sig_kind(&op, &r.st), r.history_tags(&op, &[])), step, format!("after writer {} ({:?}) || cleanup: {}", op.brief(), wres.as_ref().map_err(|e| err_class(e)), diff_rows(&expect.rows, &rows)));
            }
        }
        Err(e) => {
            r.res.violate("C08", "race", &format!("committed-version-misses-files:{}", op.kind()), step, format!("after writer {} ({:?}) || cleanup ({:?}): scan of latest version {} failed: {}", op.brief(), wres.as_ref().map_err(|e| err_class(e)), cres.as_ref().map_err(|e| err_class(e)), l, e));
        }
    }
    if let Err(e) = ds.validate().await {
        r.res.violate("C08", "race", &format!("validate-after-race:{}", err_class(&e.to_string())), step, format!("after writer {} || cleanup: validate failed: {}", op.brief(), e));
    }
    let _ = m;
}

//! E4: replay spill (writer + readers interleaved at operation boundaries) and stream chunker (C41).

use std::sync::Arc;
use std::time::Duration;

use arrow_array::{Int64Array, RecordBatch};
use arrow_schema::{DataType, Field, Schema};
use datafusion::physical_plan::stream::RecordBatchStreamAdapter;
use datafusion::physical_plan::SendableRecordBatchStream;
use futures::StreamExt;
use lance_datafusion::chunker::{chunk_concat_stream, chunk_stream};
use lance_datafusion::spill::create_replay_spill;
use tokio::sync::mpsc;

use crate::rng::Rng;
use crate::runres::{RunCfg, RunResult};

fn schema() -> Arc<Schema> {
    Arc::new(Schema::new(vec![Field::new("id", DataType::Int64, false)]))
}

fn batch(start: i64, n: usize) -> RecordBatch {
    RecordBatch::try_new(schema(), vec![Arc::new(Int64Array::from_iter_values(start..start + n as i64))]).unwrap()
}

fn ids(b: &RecordBatch) -> Vec<i64> {
    b.column(0).as_any().downcast_ref::<Int64Array>().unwrap().values().to_vec()
}

#[derive(Debug)]
enum Cmd {
    Step,
}

#[derive(Debug, Clone)]
enum Ack {
    /// step finished; `done` = the party has nothing more to do
    Stepped { done: bool, note: String },
}

pub async fn run(cfg: RunCfg) -> RunResult {
    let t0 = std::time::Instant::now();
    let mut res = RunResult::new(&cfg);
    let mut rng = Rng::new(cfg.seed);

    // ---------------- chunker (input-driven part of the property) ----------------
    {
        let nb = rng.range(0, 8) as usize;
        let sizes: Vec<usize> = (0..nb).map(|_| rng.range(0, 40) as usize).collect();
        let chunk = rng.range(1, 25) as usize;
        let mut start = 0i64;
        let mut batches = Vec::new();
        for s in sizes.iter() {
            batches.push(batch(start, *s));
            start += *s as i64;
        }
        let total = start as usize;
        let mk = |bs: Vec<RecordBatch>| -> SendableRecordBatchStream { Box::pin(RecordBatchStreamAdapter::new(schema(), futures::stream::iter(bs.into_iter().map(Ok)))) };
        let out: Vec<_> = chunk_stream(mk(batches.clone()), chunk).collect().await;
        let mut got = Vec::new();
        let n_out = out.len();
        for (i, item) in out.into_iter().enumerate() {
            match item {
                Ok(parts) => {
                    let rows: usize = parts.iter().map(|b| b.num_rows()).sum();
                    if rows != chunk && i + 1 != n_out {
                        res.violate("C41", "chunk-size", "chunk-wrong-size", 0, format!("chunk {} of {} has {} rows, requested {} (input sizes {:?})", i, n_out, rows, chunk, sizes));
                    }
                    if rows == 0 || rows > chunk {
                        res.violate("C41", "chunk-size", "chunk-empty-or-too-big", 0, format!("chunk {} has {} rows, requested {} (input sizes {:?})", i, rows, chunk, sizes));
                    }
                    for p in parts.iter() {
                        got.extend(ids(p));
                    }
                }
                Err(e) => res.violate("C41", "chunk-error", "chunk-error", 0, e.to_string()),
            }
        }
        if got != (0..total as i64).collect::<Vec<_>>() {
            res.violate("C41", "chunk-concat", "chunk-content", 0, format!("chunk_stream output differs from input (sizes {:?}, chunk {})", sizes, chunk));
        }
        let out2: Vec<_> = chunk_concat_stream(mk(batches), chunk).collect().await;
        let mut got2 = Vec::new();
        let n2 = out2.len();
        for (i, item) in out2.into_iter().enumerate() {
            match item {
                Ok(b) => {
                    if b.num_rows() != chunk && i + 1 != n2 {
                        res.violate("C41", "chunk-size", "concat-chunk-wrong-size", 0, format!("chunk {} of {} has {} rows, requested {} (input sizes {:?})", i, n2, b.num_rows(), chunk, sizes));
                    }
                    got2.extend(ids(&b));
                }
                Err(e) => res.violate("C41", "chunk-error", "concat-chunk-error", 0, e.to_string()),
            }
        }
        if got2 != (0..total as i64).collect::<Vec<_>>() {
            res.violate("C41", "chunk-concat", "concat-chunk-content", 0, format!("chunk_concat_stream output differs from input (sizes {:?}, chunk {})", sizes, chunk));
        }
        res.subcases += 2;
    }

    // ---------------- replay spill ----------------
    let nbatches = if cfg.thorough() { rng.range(0, 15) } else { rng.range(0, 7) } as usize;
    let sizes: Vec<usize> = (0..nbatches).map(|_| rng.range(1, 30) as usize).collect();
    let memory_limit = *rng.pick(&[0usize, 1, 300, 2_000, 1 << 30]);
    let finish = rng.chance(0.9);
    let nreaders = rng.range(1, 3) as usize;
    let path = std::env::temp_dir().join(format!("lancesim-spill-{}-{}.arrows", std::process::id(), cfg.seed));
    let _ = std::fs::remove_file(&path);
    let (mut sender, receiver) = create_replay_spill(path.clone(), schema(), memory_limit);
    res.knobs.insert("memory_limit".into(), memory_limit.to_string());
    res.knobs.insert("batches".into(), format!("{:?}", sizes));
    res.knobs.insert("finish".into(), finish.to_string());

    let (ack_tx, mut ack_rx) = mpsc::unbounded_channel::<(usize, Ack)>();
    let mut cmd_txs: Vec<mpsc::UnboundedSender<Cmd>> = Vec::new();
    let mut tasks = Vec::new();
    // party 0: the writer
    {
        let (tx, mut rx) = mpsc::unbounded_channel::<Cmd>();
        cmd_txs.push(tx);
        let ack = ack_tx.clone();
        let sizes = sizes.clone();
        tasks.push(tokio::spawn(async move {
            let mut start = 0i64;
            for s in sizes.iter() {
                if rx.recv().await.is_none() {
                    return;
                }
                let r = sender.write(batch(start, *s)).await;
                start += *s as i64;
                let _ = ack.send((0, Ack::Stepped { done: false, note: format!("write({}) -> {}", s, r.is_ok()) }));
            }
            if rx.recv().await.is_none() {
                return;
            }
            if finish {
                let r = sender.finish().await;
                let _ = ack.send((0, Ack::Stepped { done: false, note: format!("finish -> {}", r.is_ok()) }));
                // keep the sender alive until told to drop it (readers may still be reading)
                let _ = rx.recv().await;
                drop(sender);
                let _ = ack.send((0, Ack::Stepped { done: true, note: "drop sender".into() }));
            } else {
                drop(sender);
                let _ = ack.send((0, Ack::Stepped { done: true, note: "drop sender without finish".into() }));
            }
        }));
    }
    // readers
    let results: Arc<std::sync::Mutex<Vec<(usize, Vec<i64>, Option<String>, bool)>>> = Arc::new(std::sync::Mutex::new(Vec::new()));
    for j in 0..nreaders {
        let (tx, mut rx) = mpsc::unbounded_channel::<Cmd>();
        cmd_txs.push(tx);
        let ack = ack_tx.clone();
        let recv = receiver.clone();
        let results = results.clone();
        let twice = rng.chance(0.3);
        let stop_early = if rng.chance(0.15) { Some(rng.range(0, 3) as usize) } else { None };
        tasks.push(tokio::spawn(async move {
            let id = j + 1;
            let passes = if twice { 2 } else { 1 };
            for pass in 0..passes {
                if rx.recv().await.is_none() {
                    return;
                }
                let mut stream = recv.read();
                let _ = ack.send((id, Ack::Stepped { done: false, note: "open".into() }));
                let mut got = Vec::new();
                let mut err = None;
                let mut complete = false;
                let mut n = 0;
                loop {
                    if rx.recv().await.is_none() {
                        return;
                    }
                    if Some(n) == stop_early {
                        let _ = ack.send((id, Ack::Stepped { done: false, note: "drop reader early".into() }));
                        break;
                    }
                    match stream.next().await {
                        Some(Ok(b)) => {
                            got.extend(ids(&b));
                            n += 1;
                            let _ = ack.send((id, Ack::Stepped { done: false, note: format!("next -> batch of {}", b.num_rows()) }));
                        }
                        Some(Err(e)) => {
                            err = Some(e.to_string());
                            let _ = ack.send((id, Ack::Stepped { done: false, note: "next -> error".into() }));
                            break;
                        }
                        None => {
                            complete = true;
                            let _ = ack.send((id, Ack::Stepped { done: false, note: "next -> end".into() }));
                            break;
                        }
                    }
                }
                drop(stream);
                results.lock().unwrap().push((id, got, err, complete));
                let _ = pass;
            }
            if rx.recv().await.is_some() {
                let _ = ack.send((id, Ack::Stepped { done: true, note: "reader done".into() }));
            }
        }));
    }
    drop(ack_tx);
    drop(receiver);

    // the seeded interleaving of steps
    let nparties = cmd_txs.len();
    let mut busy = vec![false; nparties];
    let mut done = vec![false; nparties];
    let mut writer_finished = false;
    let mut h = 0u64;
    let mut steps = 0u64;
    let mut idle_rounds = 0u32;
    loop {
        // collect acks that arrived
        tokio::time::sleep(Duration::from_millis(1)).await;
        // acks that arrive in the same quiescence window are processed in party order (their
        // arrival order depends on the timing of the spill's blocking file I/O)
        let mut window: Vec<(usize, Ack)> = Vec::new();
        while let Ok(x) = ack_rx.try_recv() {
            window.push(x);
        }
        window.sort_by_key(|(p, _)| *p);
        for (p, Ack::Stepped { done: d, note }) in window {
            busy[p] = false;
            if d {
                done[p] = true;
            }
            if p == 0 && (note.starts_with("finish") || note.starts_with("drop sender without")) {
                writer_finished = true;
            }
            res.script.push(format!("p{}: {}", p, note));
        }
        if done.iter().all(|d| *d) {
            break;
        }
        // the writer drops the sender only after every reader is done (documented contract)
        let readers_done = done.iter().skip(1).all(|d| *d);
        let mut cands: Vec<usize> = (0..nparties).filter(|p| !busy[*p] && !done[*p]).collect();
        if writer_finished && !readers_done {
            cands.retain(|p| *p != 0);
        }
        if cands.is_empty() {
            idle_rounds += 1;
            tokio::time::sleep(Duration::from_millis(50)).await;
            if idle_rounds > 200 {
                let blocked: Vec<usize> = (0..nparties).filter(|p| busy[*p]).collect();
                res.violate("C41", "completes", if writer_finished { "reader-stuck-after-finish" } else { "stuck" }, 0, format!("parties {:?} blocked forever (writer finished: {}, memory_limit {}, batches {:?})", blocked, writer_finished, memory_limit, sizes));
                break;
            }
            continue;
        }
        idle_rounds = 0;
        let p = *rng.pick(&cands);
        busy[p] = true;
        h = crate::rng::mix(&[h, p as u64]);
        steps += 1;
        if cmd_txs[p].send(Cmd::Step).is_err() {
            done[p] = true;
            busy[p] = false;
        }
        if steps > 5_000 {
            res.violate("C41", "completes", "too-many-steps", 0, "script did not terminate".into());
            break;
        }
    }
    for t in tasks.iter() {
        t.abort();
    }
    let expected: Vec<i64> = (0..sizes.iter().sum::<usize>() as i64).collect();
    for (id, got, err, complete) in results.lock().unwrap().iter() {
        if *complete {
            res.probe("reader-complete");
            if *got != expected {
                res.violate("C41", "exactly-once-in-order", if memory_limit < 5_000 { "reader-content:spilled" } else { "reader-content:memory" }, 0, format!("reader {} got {} ids (first diff at {:?}), expected {} (memory_limit {}, batches {:?})", id, got.len(), got.iter().zip(expected.iter()).position(|(a, b)| a != b), expected.len(), memory_limit, sizes));
            }
            if !finish {
                res.violate("C41", "end-needs-finish", "reader-ended-without-finish", 0, format!("reader {} reached end of stream although the writer never finished", id));
            }
        } else if let Some(e) = err {
            res.probe("reader-error");
            if finish {
                res.violate("C41", "no-spurious-error", "reader-error-with-live-sender", 0, format!("reader {} failed although the sender finished and was still alive: {}", id, e));
            }
            // a prefix is all it may have seen
            if got.as_slice() != &expected[..got.len().min(expected.len())] {
                res.violate("C41", "exactly-once-in-order", "reader-prefix-content", 0, format!("reader {} saw a non-prefix before the error", id));
            }
        } else {
            res.probe("reader-dropped-early");
            if got.as_slice() != &expected[..got.len().min(expected.len())] {
                res.violate("C41", "exactly-once-in-order", "reader-prefix-content", 0, format!("reader {} saw a non-prefix", id));
            }
        }
    }
    if memory_limit < 5_000 && sizes.iter().sum::<usize>() > 40 {
        res.probe("spilled-to-disk");
    }
    let _ = std::fs::remove_file(&path);
    res.steps = steps;
    res.nontrivial = nreaders >= 1 && nbatches >= 1;
    res.interleaving_hash = crate::rng::mix(&[h, memory_limit as u64, nbatches as u64, nreaders as u64]);
    res.kinds = vec![format!("readers{}", nreaders)];
    res.wall_ms = t0.elapsed().as_millis() as u64;
    res
}

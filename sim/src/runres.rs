//! Run configuration and result records exchanged between the simulator binary
//! and the `check` driver (one JSON object per run).

use std::collections::BTreeMap;

use serde::Serialize;

/// location of the most recent panic (set by the panic hook)
pub static LAST_PANIC_LOC: std::sync::Mutex<String> = std::sync::Mutex::new(String::new());

#[derive(Clone, Debug)]
pub struct RunCfg {
    pub engine: String,
    pub prop: String,
    pub seed: u64,
    pub tier: String,
    /// step indices to skip (minimisation)
    pub skip: Vec<u64>,
    pub opts: Vec<(String, String)>,
    pub max_steps: Option<u64>,
    pub trace: bool,
}

impl RunCfg {
    pub fn opt(&self, k: &str) -> Option<&str> {
        self.opts.iter().rev().find(|(a, _)| a == k).map(|(_, v)| v.as_str())
    }
    pub fn opt_u64(&self, k: &str) -> Option<u64> {
        self.opt(k).and_then(|v| v.parse().ok())
    }
    pub fn opt_bool(&self, k: &str) -> Option<bool> {
        self.opt(k).map(|v| v == "1" || v == "true")
    }
    pub fn thorough(&self) -> bool {
        self.tier == "thorough"
    }
}

#[derive(Clone, Debug, Serialize)]
pub struct Violation {
    pub prop: String,
    pub oracle: String,
    /// stable signature used for known-findings matching and minimisation
    pub sig: String,
    pub step: u64,
    pub detail: String,
}

#[derive(Clone, Debug, Default, Serialize)]
pub struct RunResult {
    pub engine: String,
    pub prop: String,
    pub seed: u64,
    /// "ok" | "violation" | "harness_error"
    pub status: String,
    pub violations: Vec<Violation>,
    pub harness_error: Option<String>,
    /// operation script actually executed (brief forms)
    pub script: Vec<String>,
    /// operation kinds (for distinct-history measure)
    pub kinds: Vec<String>,
    pub knobs: BTreeMap<String, String>,
    pub probes: BTreeMap<String, u64>,
    pub faults: BTreeMap<String, u64>,
    pub calls: u64,
    pub steps: u64,
    /// hash of the scheduling decision sequence (actor, kind, path class, fault)
    pub interleaving_hash: u64,
    /// did >= 2 parties overlap or >= 1 fault fire
    pub nontrivial: bool,
    pub distinct_states: u64,
    pub sim_time_ms: u64,
    pub wall_ms: u64,
    /// digest of the final disk (determinism self-test)
    pub digest: u64,
    pub trace: Vec<String>,
    /// number of sub-cases (e.g. crash points) evaluated inside the run
    pub subcases: u64,
}

impl RunResult {
    pub fn new(cfg: &RunCfg) -> Self {
        Self {
            engine: cfg.engine.clone(),
            prop: cfg.prop.clone(),
            seed: cfg.seed,
            status: "ok".into(),
            ..Default::default()
        }
    }
    pub fn harness_error(cfg: &RunCfg, msg: String) -> Self {
        let mut r = Self::new(cfg);
        r.status = "harness_error".into();
        r.harness_error = Some(msg);
        r
    }
    /// the process died while running valid operations: reported as a violation
    pub fn crashed(cfg: &RunCfg, msg: String) -> Self {
        let mut r = Self::new(cfg);
        r.status = "violation".into();
        r.violations.push(Violation {
            prop: cfg.prop.clone(),
            oracle: "process-abort".into(),
            sig: "process-abort".into(),
            step: 0,
            detail: msg,
        });
        r
    }
    pub fn violate(&mut self, prop: &str, oracle: &str, sig: &str, step: u64, detail: String) {
        self.status = "violation".into();
        // keep the record bounded
        if self.violations.len() < 20 {
            let mut d = detail;
            if d.len() > 1500 {
                d.truncate(1500);
                d.push_str("...");
            }
            self.violations.push(Violation { prop: prop.into(), oracle: oracle.into(), sig: sig.into(), step, detail: d });
        }
    }
    pub fn probe(&mut self, name: &str) {
        *self.probes.entry(name.to_string()).or_insert(0) += 1;
    }
    pub fn probe_n(&mut self, name: &str, n: u64) {
        *self.probes.entry(name.to_string()).or_insert(0) += n;
    }
}

//! The seeded scheduler: waits for quiescence, looks at the parked storage calls of
//! all parties, and releases exactly one with a decision (proceed / fault / crash).

use std::collections::BTreeSet;
use std::sync::Arc;
use std::time::Duration;

use tokio::task::JoinHandle;

use crate::rng::{hash_str, mix, Rng};
use crate::world::{path_class, ActorId, CallKind, Decision, ParkedInfo, PathClass, World};

#[derive(Clone, Debug)]
pub struct SchedCfg {
    /// max number of injected faults in this phase
    pub fault_budget: u32,
    /// probability that an eligible call gets a fault while budget remains
    pub p_fault: f64,
    /// enabled fault decisions
    pub faults: Vec<Decision>,
    /// probability to complete a non-oldest parked call of the chosen actor
    pub p_reorder: f64,
    /// probability to keep scheduling the same actor (stall others)
    pub p_stick: f64,
    /// virtual ms without any party reaching the gate or finishing => stuck
    pub t_live_ms: u64,
    /// only these actors may receive faults (empty = all)
    pub fault_actors: Vec<ActorId>,
    /// only mutating calls on these classes get ambiguous faults (empty = all)
    pub amb_classes: Vec<PathClass>,
    pub max_decisions: u64,
    /// probability that further parked calls are released in the same step, i.e. several
    /// responses arrive before any party runs again (completions observed in one poll)
    pub p_burst: f64,
}

impl Default for SchedCfg {
    fn default() -> Self {
        Self {
            fault_budget: 0,
            p_fault: 0.0,
            faults: vec![],
            p_reorder: 0.15,
            p_stick: 0.5,
            t_live_ms: 7 * 24 * 3600 * 1000,
            fault_actors: vec![],
            amb_classes: vec![],
            max_decisions: 200_000,
            p_burst: 0.15,
        }
    }
}

#[derive(Clone, Debug, Default)]
pub struct SchedOut {
    pub decisions: u64,
    pub hash: u64,
    pub overlapped: bool,
    pub stuck: bool,
    pub faults_fired: u32,
    pub crashed: Vec<ActorId>,
    pub trace: Vec<String>,
}

fn fault_applicable(d: Decision, k: CallKind) -> bool {
    match d {
        Decision::Proceed => true,
        Decision::FailPre | Decision::CrashPre => true,
        Decision::ConnReset => matches!(k, CallKind::MpPart | CallKind::Put | CallKind::PutCreate | CallKind::Get),
        Decision::FailPost | Decision::CrashPost => k.is_mutating(),
        Decision::Dup => matches!(k, CallKind::PutCreate | CallKind::CopyIfNotExists | CallKind::ExtPutIfNotExists | CallKind::ExtGetLatest),
    }
}

/// Drive all `tasks` (one per actor in `actors`) to completion under the seeded schedule.
pub async fn drive<T: Send + 'static>(
    w: &Arc<World>,
    rng: &mut Rng,
    cfg: &SchedCfg,
    actors: &[ActorId],
    tasks: &mut [JoinHandle<T>],
    keep_trace: bool,
) -> SchedOut {
    let mut out = SchedOut::default();
    let mut budget = cfg.fault_budget;
    let mut idle_ms: u64 = 0;
    let mut last: Option<ActorId> = None;
    let mut h: u64 = 0x1234;
    let mut aborted: BTreeSet<ActorId> = BTreeSet::new();
    loop {
        // quiescence: with the paused clock this returns only when no task is runnable
        tokio::time::sleep(Duration::from_millis(1)).await;
        // crashed parties: abort their tasks (only durable state survives)
        for (i, a) in actors.iter().enumerate() {
            if !aborted.contains(a) && w.is_dead(*a) {
                tasks[i].abort();
                aborted.insert(*a);
                out.crashed.push(*a);
            }
        }
        let parked: Vec<ParkedInfo> = w.parked();
        let all_done = tasks.iter().all(|t| t.is_finished());
        if parked.is_empty() {
            if all_done {
                break;
            }
            // parties are in a timer (back-off) or blocked on each other: let virtual time pass
            let step_ms: u64 = if idle_ms < 10_000 { 50 } else { 5_000 };
            tokio::time::sleep(Duration::from_millis(step_ms - 1)).await;
            idle_ms += step_ms;
            if idle_ms > cfg.t_live_ms {
                out.stuck = true;
                break;
            }
            continue;
        }
        idle_ms = 0;
        let mut acts: Vec<ActorId> = parked.iter().map(|p| p.actor).collect();
        acts.sort();
        acts.dedup();
        if acts.len() >= 2 {
            out.overlapped = true;
        }
        let mut released: BTreeSet<u64> = BTreeSet::new();
        let mut burst_left = if rng.chance(cfg.p_burst) { rng.range(1, 3) as usize } else { 0 };
        loop {
            let avail: Vec<&ParkedInfo> = parked.iter().filter(|p| !released.contains(&p.id)).collect();
            if avail.is_empty() {
                break;
            }
            let mut acts: Vec<ActorId> = avail.iter().map(|p| p.actor).collect();
            acts.sort();
            acts.dedup();
            let a = match last {
                Some(l) if acts.contains(&l) && rng.chance(cfg.p_stick) => l,
                _ => *rng.pick(&acts),
            };
            last = Some(a);
            let mut calls: Vec<&ParkedInfo> = avail.iter().filter(|p| p.actor == a).cloned().collect();
            calls.sort_by_key(|p| p.id);
            let call = if calls.len() > 1 && rng.chance(cfg.p_reorder) { calls[rng.usize(calls.len())] } else { calls[0] };
            let mut d = Decision::Proceed;
            if budget > 0 && !cfg.faults.is_empty() && (cfg.fault_actors.is_empty() || cfg.fault_actors.contains(&a)) && rng.chance(cfg.p_fault) {
                let cand = *rng.pick(&cfg.faults);
                let class_ok = cfg.amb_classes.is_empty() || !matches!(cand, Decision::FailPost | Decision::Dup) || cfg.amb_classes.contains(&path_class(&call.path)) || matches!(call.kind, CallKind::ExtPutIfNotExists | CallKind::ExtPutIfExists | CallKind::ExtGetLatest);
                if fault_applicable(cand, call.kind) && class_ok {
                    d = cand;
                    budget -= 1;
                    out.faults_fired += 1;
                }
            }
            let item = format!("a{}:{}:{:?}:{}", a, call.kind.short(), path_class(&call.path), d.short());
            h = mix(&[h, hash_str(&item)]);
            if keep_trace {
                out.trace.push(format!("a{}#{} {} {} {}{}", a, call.seq, call.kind.short(), call.path, d.short(), if released.is_empty() { "" } else { " (same step)" }));
            }
            w.release(call.id, d);
            released.insert(call.id);
            out.decisions += 1;
            // a crash decision ends the step: the party is dead
            if burst_left == 0 || matches!(d, Decision::CrashPre | Decision::CrashPost) {
                break;
            }
            burst_left -= 1;
        }
        if out.decisions > cfg.max_decisions {
            out.stuck = true;
            break;
        }
    }
    out.hash = h;
    if out.stuck {
        for t in tasks.iter() {
            t.abort();
        }
        w.release_all(Decision::FailPre);
    }
    out
}
